// Package model holds the harness's own abstract value (AV) and small
// reference models. AV is built by a full read through datamodel.Node and
// compared structurally; it never calls library equality.
package model

import (
	"bytes"
	"fmt"
	"io"
	"math"
	"sort"
	"strconv"
	"strings"

	"github.com/ipld/go-ipld-prime/datamodel"
	"github.com/ipld/go-ipld-prime/node/basicnode"
)

type Kind uint8

const (
	Null Kind = iota
	Bool
	Int
	Float
	String
	Bytes
	Link
	List
	Map
)

var kindNames = []string{"null", "bool", "int", "float", "string", "bytes", "link", "list", "map"}

func (k Kind) String() string { return kindNames[k] }

// V is an abstract data-model value.
type V struct {
	K    Kind
	B    bool
	I    int64
	U    bool // Int only: an unsigned value above the int64 range; I holds its 64 bits
	F    float64
	S    string // string value; link: CID binary (KeyString)
	Bs   []byte
	Keys []string
	Vals []*V // map values (parallel to Keys) or list items
}

func NullV() *V       { return &V{K: Null} }
func BoolV(b bool) *V { return &V{K: Bool, B: b} }
func IntV(i int64) *V { return &V{K: Int, I: i} }

// UintV is an integer given as uint64 (values above MaxInt64 are only reachable through datamodel.UintNode).
func UintV(u uint64) *V {
	return &V{K: Int, I: int64(u), U: u > math.MaxInt64}
}
func FloatV(f float64) *V  { return &V{K: Float, F: f} }
func StringV(s string) *V  { return &V{K: String, S: s} }
func BytesV(b []byte) *V   { return &V{K: Bytes, Bs: b} }
func LinkV(bin string) *V  { return &V{K: Link, S: bin} }
func ListV(items ...*V) *V { return &V{K: List, Vals: items} }
func MapV() *V             { return &V{K: Map} }
func (v *V) Put(k string, x *V) *V {
	v.Keys = append(v.Keys, k)
	v.Vals = append(v.Vals, x)
	return v
}
func (v *V) Get(k string) *V {
	for i, kk := range v.Keys {
		if kk == k {
			return v.Vals[i]
		}
	}
	return nil
}

// Equal compares structurally. Map entry order matters.
func Equal(a, b *V) bool {
	if a == nil || b == nil {
		return a == b
	}
	if a.K != b.K {
		return false
	}
	switch a.K {
	case Null:
		return true
	case Bool:
		return a.B == b.B
	case Int:
		return a.I == b.I && a.U == b.U
	case Float:
		// bit-exact: +0.0 and -0.0 are different values (they encode to different bytes and links)
		return math.Float64bits(a.F) == math.Float64bits(b.F)
	case String, Link:
		return a.S == b.S
	case Bytes:
		return bytes.Equal(a.Bs, b.Bs)
	case List, Map:
		if len(a.Vals) != len(b.Vals) {
			return false
		}
		if a.K == Map {
			for i := range a.Keys {
				if a.Keys[i] != b.Keys[i] {
					return false
				}
			}
		}
		for i := range a.Vals {
			if !Equal(a.Vals[i], b.Vals[i]) {
				return false
			}
		}
		return true
	}
	return false
}

// SortMode for Canon.
const (
	SortNone     = iota
	SortLenFirst // DAG-CBOR: length, then bytewise
	SortLexical  // DAG-JSON: bytewise
)

// Canon returns a deep copy with map entries sorted the way a key-sorting codec leaves them.
func (v *V) Canon(mode int) *V {
	if v == nil {
		return nil
	}
	c := *v
	if v.K == List || v.K == Map {
		c.Vals = make([]*V, len(v.Vals))
		for i, x := range v.Vals {
			c.Vals[i] = x.Canon(mode)
		}
	}
	if v.K == Map {
		c.Keys = append([]string(nil), v.Keys...)
		if mode != SortNone {
			idx := make([]int, len(c.Keys))
			for i := range idx {
				idx[i] = i
			}
			sort.SliceStable(idx, func(a, b int) bool {
				ka, kb := v.Keys[idx[a]], v.Keys[idx[b]]
				if mode == SortLenFirst && len(ka) != len(kb) {
					return len(ka) < len(kb)
				}
				return ka < kb
			})
			ks := make([]string, len(idx))
			vs := make([]*V, len(idx))
			for i, j := range idx {
				ks[i], vs[i] = v.Keys[j], c.Vals[j]
			}
			c.Keys, c.Vals = ks, vs
		}
	}
	return &c
}

func (v *V) Copy() *V { return v.Canon(SortNone) }

// String renders deterministically (bounded).
func (v *V) String() string {
	var sb strings.Builder
	v.render(&sb, 400)
	return sb.String()
}

func (v *V) render(sb *strings.Builder, lim int) {
	if sb.Len() > lim {
		sb.WriteString("…")
		return
	}
	if v == nil {
		sb.WriteString("<nil>")
		return
	}
	switch v.K {
	case Null:
		sb.WriteString("null")
	case Bool:
		sb.WriteString(strconv.FormatBool(v.B))
	case Int:
		if v.U {
			sb.WriteString(strconv.FormatUint(uint64(v.I), 10))
		} else {
			sb.WriteString(strconv.FormatInt(v.I, 10))
		}
	case Float:
		sb.WriteString("f" + strconv.FormatFloat(v.F, 'g', -1, 64))
	case String:
		s := v.S
		if len(s) > 24 {
			s = s[:24] + fmt.Sprintf("…(%d)", len(v.S))
		}
		sb.WriteString(strconv.Quote(s))
	case Bytes:
		b := v.Bs
		if len(b) > 12 {
			b = b[:12]
		}
		fmt.Fprintf(sb, "x%x(%d)", b, len(v.Bs))
	case Link:
		s := v.S
		if len(s) > 10 {
			s = s[len(s)-10:]
		}
		fmt.Fprintf(sb, "link(…%x)", s)
	case List:
		sb.WriteByte('[')
		for i, x := range v.Vals {
			if i > 0 {
				sb.WriteByte(',')
			}
			x.render(sb, lim)
		}
		sb.WriteByte(']')
	case Map:
		sb.WriteByte('{')
		for i, x := range v.Vals {
			if i > 0 {
				sb.WriteByte(',')
			}
			k := v.Keys[i]
			if len(k) > 16 {
				k = k[:16] + "…"
			}
			sb.WriteString(strconv.Quote(k) + ":")
			x.render(sb, lim)
		}
		sb.WriteByte('}')
	}
}

// Hash of the full value (order-sensitive).
func (v *V) Hash() uint64 {
	h := uint64(1469598103934665603)
	v.hash(&h)
	return h
}

func mixb(h *uint64, b byte) { *h = (*h ^ uint64(b)) * 1099511628211 }
func mixs(h *uint64, s string) {
	for i := 0; i < len(s); i++ {
		mixb(h, s[i])
	}
	mixb(h, 0xfe)
}
func mixu(h *uint64, u uint64) {
	for i := 0; i < 8; i++ {
		mixb(h, byte(u>>(8*i)))
	}
}

func (v *V) hash(h *uint64) {
	if v == nil {
		mixb(h, 0xee)
		return
	}
	mixb(h, byte(v.K))
	switch v.K {
	case Bool:
		if v.B {
			mixb(h, 1)
		}
	case Int:
		mixu(h, uint64(v.I))
		if v.U {
			mixb(h, 0xf1)
		}
	case Float:
		mixu(h, math.Float64bits(v.F))
	case String, Link:
		mixs(h, v.S)
	case Bytes:
		mixs(h, string(v.Bs))
	case List, Map:
		mixu(h, uint64(len(v.Vals)))
		for i, x := range v.Vals {
			if v.K == Map {
				mixs(h, v.Keys[i])
			}
			x.hash(h)
		}
	}
}

// Size counts nodes.
func (v *V) Size() int {
	n := 1
	for _, x := range v.Vals {
		n += x.Size()
	}
	return n
}

// FromNode reads a node completely through the datamodel.Node interface.
// Large-bytes nodes are read through AsBytes (AsLargeBytes readers are
// exercised separately where cursors matter).
func FromNode(n datamodel.Node) (*V, error) {
	if n == nil {
		return nil, fmt.Errorf("nil node")
	}
	switch n.Kind() {
	case datamodel.Kind_Null:
		return NullV(), nil
	case datamodel.Kind_Bool:
		b, err := n.AsBool()
		return BoolV(b), err
	case datamodel.Kind_Int:
		if un, ok := n.(datamodel.UintNode); ok {
			// the only way to read an unsigned value above the int64 range
			u, err := un.AsUint()
			return UintV(u), err
		}
		i, err := n.AsInt()
		return IntV(i), err
	case datamodel.Kind_Float:
		f, err := n.AsFloat()
		return FloatV(f), err
	case datamodel.Kind_String:
		s, err := n.AsString()
		return StringV(s), err
	case datamodel.Kind_Bytes:
		b, err := n.AsBytes()
		return BytesV(append([]byte(nil), b...)), err
	case datamodel.Kind_Link:
		l, err := n.AsLink()
		if err != nil {
			return nil, err
		}
		if l == nil {
			return nil, fmt.Errorf("link node holds nil link")
		}
		return LinkV(l.Binary()), nil
	case datamodel.Kind_List:
		v := &V{K: List}
		it := n.ListIterator()
		if it == nil {
			return nil, fmt.Errorf("nil list iterator")
		}
		for i := int64(0); !it.Done(); i++ {
			idx, x, err := it.Next()
			if err != nil {
				return nil, err
			}
			if idx != i {
				return nil, fmt.Errorf("list iterator index %d at position %d", idx, i)
			}
			if x == nil {
				return nil, fmt.Errorf("list holds a nil node at index %d", i)
			}
			xv, err := FromNode(x)
			if err != nil {
				return nil, fmt.Errorf("[%d]: %w", i, err)
			}
			v.Vals = append(v.Vals, xv)
		}
		if int64(len(v.Vals)) != n.Length() {
			return nil, fmt.Errorf("list Length()=%d but iterator yields %d", n.Length(), len(v.Vals))
		}
		return v, nil
	case datamodel.Kind_Map:
		v := &V{K: Map}
		absent := 0
		it := n.MapIterator()
		if it == nil {
			return nil, fmt.Errorf("nil map iterator")
		}
		for !it.Done() {
			k, x, err := it.Next()
			if err != nil {
				return nil, err
			}
			ks, err := k.AsString()
			if err != nil {
				return nil, err
			}
			if x == nil {
				return nil, fmt.Errorf("map holds a nil node at key %q", ks)
			}
			if x.IsAbsent() {
				// a typed struct's optional field without a value: iterated, counted by Length, but not data
				absent++
				continue
			}
			xv, err := FromNode(x)
			if err != nil {
				return nil, fmt.Errorf("%q: %w", ks, err)
			}
			v.Keys = append(v.Keys, ks)
			v.Vals = append(v.Vals, xv)
		}
		if int64(len(v.Vals)+absent) != n.Length() {
			return nil, fmt.Errorf("map Length()=%d but iterator yields %d", n.Length(), len(v.Vals)+absent)
		}
		return v, nil
	}
	return nil, fmt.Errorf("invalid kind %v", n.Kind())
}

// LinkFn turns the binary form of a link into a datamodel.Link.
type LinkFn func(bin string) datamodel.Link

// Assemble writes v into an assembler. order, when non-nil, permutes map
// insertion order (order[mapIndex] is a permutation); nil = as given.
func Assemble(na datamodel.NodeAssembler, v *V, lf LinkFn, perm func(n int) []int) error {
	switch v.K {
	case Null:
		return na.AssignNull()
	case Bool:
		return na.AssignBool(v.B)
	case Int:
		if v.U {
			return na.AssignNode(basicnode.NewUint(uint64(v.I)))
		}
		return na.AssignInt(v.I)
	case Float:
		return na.AssignFloat(v.F)
	case String:
		return na.AssignString(v.S)
	case Bytes:
		return na.AssignBytes(append([]byte(nil), v.Bs...))
	case Link:
		return na.AssignLink(lf(v.S))
	case List:
		la, err := na.BeginList(int64(len(v.Vals)))
		if err != nil {
			return err
		}
		for _, x := range v.Vals {
			if err := Assemble(la.AssembleValue(), x, lf, perm); err != nil {
				return err
			}
		}
		return la.Finish()
	case Map:
		ma, err := na.BeginMap(int64(len(v.Vals)))
		if err != nil {
			return err
		}
		idx := make([]int, len(v.Vals))
		for i := range idx {
			idx[i] = i
		}
		if perm != nil {
			idx = perm(len(v.Vals))
		}
		for _, i := range idx {
			va, err := ma.AssembleEntry(v.Keys[i])
			if err != nil {
				return err
			}
			if err := Assemble(va, v.Vals[i], lf, perm); err != nil {
				return err
			}
		}
		return ma.Finish()
	}
	return fmt.Errorf("bad kind")
}

var _ = io.EOF
