// Package driver runs scenarios: fans units out over worker processes,
// confirms, minimises and reports violations, matches known findings and
// writes the evidence file.
package driver

import (
	"bufio"
	"encoding/json"
	"fmt"
	"os"
	"os/exec"
	"path/filepath"
	"regexp"
	"runtime"
	"sort"
	"strconv"
	"strings"
	"time"

	"verif/scen"
	"verif/sim"
)

var Registry = map[string]scen.Scenario{}

func Register(s scen.Scenario) { Registry[s.ID()] = s }

// ReplayFile is what a violation is reported as.
type ReplayFile struct {
	Property    string         `json:"property"`
	Seed        int64          `json:"verif_seed"`
	Unit        int            `json:"unit"`
	UnitSeed    uint64         `json:"unit_seed"`
	Forced      map[string]int `json:"forced,omitempty"`
	Rule        string         `json:"rule"`
	Sig         string         `json:"sig"`
	Msg         string         `json:"msg"`
	TapeFull    []sim.Entry    `json:"tape_full,omitempty"`
	TapeMin     []sim.Entry    `json:"tape_min"`
	ShrinkTries int            `json:"shrink_tries"`
	Log         []string       `json:"minimised_run_log"`
	LogHash     uint64         `json:"log_hash"`

	// Kind "worker-history": the violation did not reproduce from its unit's tape alone but does
	// when the units the same worker process executed before it are executed first (the code under
	// test carries state from one run to the next inside one process). Replay re-executes the
	// sequence start+wid, start+wid+nw, ... up to the unit.
	Kind  string `json:"kind,omitempty"`
	Tier  string `json:"tier,omitempty"`
	Wid   int    `json:"wid,omitempty"`
	NW    int    `json:"nw,omitempty"`
	Start int    `json:"start,omitempty"`
}

type foundViolation struct {
	V      sim.Violation `json:"v"`
	Replay string        `json:"replay"`
	Unit   int           `json:"unit"`
	Count  int           `json:"count"`
	W      workerCfg     `json:"worker"` // who found it (for a worker-history replay)
}

type workerResult struct {
	Wid        int               `json:"wid"`
	Units      int               `json:"units"`
	Stats      *sim.Stats        `json:"stats"`
	Viol       []foundViolation  `json:"viol"`
	UnitHashes map[string]uint64 `json:"unit_hashes"`
	Trouble    []string          `json:"trouble"`
}

type Known struct {
	Property string `json:"property"`
	Status   string `json:"status"` // "known" | "fixed"
	Name     string `json:"name"`
	Rule     string `json:"rule"`
	Sig      string `json:"sig"` // regular expression, anchored
	What     string `json:"what"`
	Replay   string `json:"replay,omitempty"` // committed replay file that demonstrates it, or
	Demo     string `json:"demo,omitempty"`   // name of a fixed demonstration in the scenario
	Commit   string `json:"commit,omitempty"`
}

func VerifDir() string {
	if d := os.Getenv("VERIF_DIR"); d != "" {
		return d
	}
	exe, err := os.Executable()
	if err == nil {
		d := filepath.Dir(filepath.Dir(exe)) // <verif>/.build/simcheck or <verif>/bin/simcheck
		if _, e := os.Stat(filepath.Join(d, "properties.jsonl")); e == nil {
			return d
		}
	}
	wd, _ := os.Getwd()
	return wd
}

func loadKnown(prop string) []Known {
	f, err := os.Open(filepath.Join(VerifDir(), "known_findings.jsonl"))
	if err != nil {
		return nil
	}
	defer f.Close()
	var out []Known
	sc := bufio.NewScanner(f)
	sc.Buffer(make([]byte, 1<<20), 1<<20)
	for sc.Scan() {
		line := strings.TrimSpace(sc.Text())
		if line == "" || strings.HasPrefix(line, "#") {
			continue
		}
		var k Known
		if json.Unmarshal([]byte(line), &k) == nil && k.Property == prop {
			out = append(out, k)
		}
	}
	return out
}

func (k Known) matches(v sim.Violation) bool {
	if k.Status != "known" || k.Rule != v.Rule {
		return false
	}
	re, err := regexp.Compile("^(?:" + k.Sig + ")$")
	if err != nil {
		return false
	}
	return re.MatchString(v.Sig)
}

// ---------------------------------------------------------------- worker

type workerCfg struct {
	Prop    string
	Tier    string
	Seed    int64
	Wid, NW int
	Units   int
	Secs    int
	Out     string
	Start   int
}

// runTapeSafe runs a scenario run, converting a harness-side panic into trouble.
func runTapeSafe(sc scen.Scenario, t *sim.Tape, st *sim.Stats, keep bool) (o *sim.Outcome, trouble string) {
	defer func() {
		if r := recover(); r != nil {
			buf := make([]byte, 1<<14)
			buf = buf[:runtime.Stack(buf, false)]
			trouble = fmt.Sprintf("harness panic: %v\n%s", r, buf)
			o = &sim.Outcome{}
		}
	}()
	return sc.RunTape(t, st, keep), ""
}

func Worker(c workerCfg) int {
	sc := Registry[c.Prop]
	res := &workerResult{Wid: c.Wid, Stats: sim.NewStats(), UnitHashes: map[string]uint64{}}
	seen := map[string]int{} // violation class -> index in res.Viol
	start := time.Now()
	known := loadKnown(c.Prop)
	shrunk := 0
	for ui := c.Start + c.Wid; ui < c.Start+c.Units; ui += c.NW {
		if c.Secs > 0 && time.Since(start) > time.Duration(c.Secs)*time.Second {
			break
		}
		useed := sim.SeedFor(c.Seed, c.Prop, ui)
		var uh uint64 = 1469598103934665603
		u := &scen.Unit{Seed: useed, Tier: c.Tier, St: res.Stats}
		u.Expired = func() bool {
			return c.Secs > 0 && time.Since(start) > time.Duration(c.Secs)*time.Second+5*time.Second
		}
		u.Exec = func(forced map[string]int) *sim.Outcome {
			if forced != nil && u.Expired() {
				res.Stats.Inc("skipped_after_deadline")
				return &sim.Outcome{}
			}
			t := sim.NewTape(useed)
			t.Forced = forced
			o, trouble := runTapeSafe(sc, t, res.Stats, false)
			if trouble != "" {
				res.Trouble = append(res.Trouble, fmt.Sprintf("unit %d: %s", ui, trouble))
				return o
			}
			res.Stats.Inc("evaluations")
			uh = (uh ^ o.LogHash) * 1099511628211
			for _, v := range o.Viol {
				cl := v.Class()
				if i, ok := seen[cl]; ok {
					res.Viol[i].Count++
					continue
				}
				seen[cl] = len(res.Viol)
				fv := foundViolation{V: v, Unit: ui, Count: 1, W: c}
				isKnown := false
				for _, k := range known {
					if k.matches(v) {
						isKnown = true
					}
				}
				if !isKnown {
					shrunk++
					path, tr := confirmAndShrink(sc, c, ui, useed, forced, t.Rec, v, shrunk <= 3)
					if tr != "" {
						res.Trouble = append(res.Trouble, tr)
					}
					fv.Replay = path
				}
				res.Viol = append(res.Viol, fv)
			}
			return o
		}
		sc.Unit(u)
		res.Units++
		res.UnitHashes[strconv.Itoa(ui)] = uh
	}
	res.Stats.Seal()
	js, _ := json.Marshal(res)
	if err := os.WriteFile(c.Out, js, 0666); err != nil {
		fmt.Fprintln(os.Stderr, "worker: cannot write result:", err)
		return 2
	}
	return 0
}

func runDemo(fn func() *sim.Violation) (v *sim.Violation, trouble string) {
	defer func() {
		if r := recover(); r != nil {
			trouble = fmt.Sprintf("panic: %v", r)
		}
	}()
	return fn(), ""
}

func hasClass(o *sim.Outcome, class string) *sim.Violation {
	for i := range o.Viol {
		if o.Viol[i].Class() == class {
			return &o.Viol[i]
		}
	}
	return nil
}

func confirmAndShrink(sc scen.Scenario, c workerCfg, ui int, useed uint64, forced map[string]int, rec []sim.Entry, v sim.Violation, shrink bool) (string, string) {
	class := v.Class()
	scratch := sim.NewStats()
	// confirm: replaying the recorded tape must give the same class and log hash
	o1, tr := runTapeSafe(sc, sim.NewReplay(rec), scratch, false)
	if tr != "" || hasClass(o1, class) == nil {
		// Not reproducible from the unit's tape within this process. If what differs is state the code
		// under test carried over from the worker's earlier units, the sequence of those units in a fresh
		// process reproduces it: record that sequence; the coordinator replays it in a fresh process and
		// only then believes it (otherwise it is reported as trouble, as before).
		return writeHistoryReplay(c, ui, useed, v), ""
	}
	// in-process scenarios run in well under a millisecond: the budget is time, not tries
	budget := 20000
	shrinkFor := 4 * time.Second
	if c.Tier == "thorough" {
		shrinkFor = 15 * time.Second
	}
	if sb := sc.Info().ShrinkBudget; sb > 0 {
		budget = sb
	}
	if !shrink {
		budget = 0 // many classes at once: only the first few per worker are minimised
	}
	if sc.Info().ShrinkBudget > 0 {
		shrinkFor = 90 * time.Second // child-process scenarios: bounded by tries
	}
	deadline := time.Now().Add(shrinkFor)
	minTape, tries := sim.Shrink(rec, func(cand []sim.Entry) ([]sim.Entry, bool) {
		if time.Now().After(deadline) {
			return nil, false
		}
		t := sim.NewReplay(cand)
		o, tr := runTapeSafe(sc, t, scratch, false)
		if tr != "" {
			return nil, false
		}
		return t.Rec, hasClass(o, class) != nil
	}, budget)
	tf := sim.NewReplay(minTape)
	of, _ := runTapeSafe(sc, tf, scratch, true)
	mv := hasClass(of, class)
	if mv == nil {
		// should not happen: fall back to the full tape
		minTape = rec
		tf = sim.NewReplay(minTape)
		of, _ = runTapeSafe(sc, tf, scratch, true)
		mv = hasClass(of, class)
		if mv == nil {
			return writeHistoryReplay(c, ui, useed, v), ""
		}
	}
	rf := ReplayFile{Property: c.Prop, Seed: c.Seed, Unit: ui, UnitSeed: useed, Forced: forced, Rule: mv.Rule, Sig: mv.Sig, Msg: mv.Msg,
		TapeMin: tf.Rec, ShrinkTries: tries, Log: of.Log, LogHash: of.LogHash}
	if len(rec) < 5000 {
		rf.TapeFull = rec
	}
	dir := filepath.Join(VerifDir(), "replays")
	os.MkdirAll(dir, 0777)
	path := filepath.Join(dir, fmt.Sprintf("%s-s%d-u%d-%s-%08x.json", c.Prop, c.Seed, ui, sanitize(mv.Rule), uint32(sim.HashString(mv.Sig))))
	js, _ := json.MarshalIndent(rf, "", " ")
	if err := os.WriteFile(path, js, 0666); err != nil {
		return "", "cannot write replay file: " + err.Error()
	}
	return path, ""
}

func writeHistoryReplay(c workerCfg, ui int, useed uint64, v sim.Violation) string {
	rf := ReplayFile{Property: c.Prop, Seed: c.Seed, Unit: ui, UnitSeed: useed, Rule: v.Rule, Sig: v.Sig, Msg: v.Msg,
		Kind: "worker-history", Tier: c.Tier, Wid: c.Wid, NW: c.NW, Start: c.Start}
	dir := filepath.Join(VerifDir(), "replays")
	os.MkdirAll(dir, 0777)
	path := filepath.Join(dir, fmt.Sprintf("%s-s%d-u%d-%s-%08x-history.json", c.Prop, c.Seed, ui, sanitize(v.Rule), uint32(sim.HashString(v.Sig))))
	js, _ := json.MarshalIndent(rf, "", " ")
	if err := os.WriteFile(path, js, 0666); err != nil {
		return ""
	}
	return path
}

// replayHistory re-executes, in this fresh process, the units a worker executed up to and
// including the failing one, and looks for the violation class at that unit.
func replayHistory(rf ReplayFile) int {
	sc := Registry[rf.Property]
	class := rf.Rule + "|" + rf.Sig
	st := sim.NewStats()
	var hit *sim.Violation
	nw := rf.NW
	if nw <= 0 {
		nw = 1
	}
	n := 0
	for ui := rf.Start + rf.Wid; ui <= rf.Unit; ui += nw {
		ui := ui
		useed := sim.SeedFor(rf.Seed, rf.Property, ui)
		u := &scen.Unit{Seed: useed, Tier: rf.Tier, St: st}
		u.Expired = func() bool { return false }
		u.Exec = func(forced map[string]int) *sim.Outcome {
			t := sim.NewTape(useed)
			t.Forced = forced
			o, _ := runTapeSafe(sc, t, st, false)
			if ui == rf.Unit && hit == nil {
				if v := hasClass(o, class); v != nil {
					c := *v
					hit = &c
				}
			}
			return o
		}
		sc.Unit(u)
		n++
	}
	fmt.Printf("worker-history replay: %d units of worker %d/%d executed in sequence (units %d, %d, ... %d)\n", n, rf.Wid, nw, rf.Start+rf.Wid, rf.Start+rf.Wid+nw, rf.Unit)
	if hit != nil {
		fmt.Printf("REPRODUCED property=%s rule=%s sig=%q (history-dependent: it needs the runs this process executed before)\n  %s\n", rf.Property, hit.Rule, hit.Sig, hit.Msg)
		return 1
	}
	fmt.Printf("NOT-REPRODUCED property=%s rule=%s sig=%q\n", rf.Property, rf.Rule, rf.Sig)
	return 0
}

func sanitize(s string) string {
	return regexp.MustCompile(`[^A-Za-z0-9_.-]+`).ReplaceAllString(s, "_")
}

// ---------------------------------------------------------------- replay

// Replay re-executes a replay file; exit 1 if the violation reproduces.
func Replay(path string) int {
	b, err := os.ReadFile(path)
	if err != nil {
		fmt.Fprintln(os.Stderr, "replay:", err)
		return 2
	}
	var rf ReplayFile
	if err := json.Unmarshal(b, &rf); err != nil {
		fmt.Fprintln(os.Stderr, "replay:", err)
		return 2
	}
	sc := Registry[rf.Property]
	if sc == nil {
		fmt.Fprintln(os.Stderr, "replay: unknown property", rf.Property)
		return 2
	}
	if rf.Kind == "worker-history" {
		return replayHistory(rf)
	}
	o, tr := runTapeSafe(sc, sim.NewReplay(rf.TapeMin), sim.NewStats(), true)
	if tr != "" {
		fmt.Fprintln(os.Stderr, "replay: harness trouble:", tr)
		return 2
	}
	for _, l := range o.Log {
		fmt.Println("  " + l)
	}
	fmt.Printf("log_hash=%d recorded=%d same_log=%v\n", o.LogHash, rf.LogHash, o.LogHash == rf.LogHash)
	class := rf.Rule + "|" + rf.Sig
	if v := hasClass(o, class); v != nil {
		fmt.Printf("REPRODUCED property=%s rule=%s sig=%q\n  %s\n", rf.Property, v.Rule, v.Sig, v.Msg)
		return 1
	}
	for _, v := range o.Viol {
		fmt.Printf("OTHER-VIOLATION property=%s rule=%s sig=%q\n  %s\n", rf.Property, v.Rule, v.Sig, v.Msg)
	}
	fmt.Printf("NOT-REPRODUCED property=%s rule=%s sig=%q\n", rf.Property, rf.Rule, rf.Sig)
	return 0
}

// ---------------------------------------------------------------- coordinator

type Evidence struct {
	Property    string                 `json:"property_id"`
	Tier        string                 `json:"tier"`
	Seed        int64                  `json:"seed"`
	Level       string                 `json:"level"`
	Coverage    map[string]interface{} `json:"coverage"`
	Assumptions []string               `json:"assumptions"`
	Wall        float64                `json:"wall_s"`
	Violations  int                    `json:"violations"`
}

func envInt(k string, def int64) int64 {
	if v := os.Getenv(k); v != "" {
		if n, err := strconv.ParseInt(v, 10, 64); err == nil {
			return n
		}
	}
	return def
}

// Check is the coordinator: quick_cmd / thorough_cmd end here.
func Check(prop, tier string, nworkers int) int {
	sc := Registry[prop]
	if sc == nil {
		fmt.Fprintln(os.Stderr, "unknown property", prop)
		return 2
	}
	info := sc.Info()
	seed := envInt("VERIF_SEED", 20260925)
	units, secs := info.QuickUnits, info.QuickSecs
	if tier == "thorough" {
		units, secs = info.ThoroughUnits, info.ThoroughSecs
	}
	units = int(envInt("VERIF_UNITS", int64(units)))
	secs = int(envInt("VERIF_SECS", int64(secs)))
	if nworkers <= 0 {
		nworkers = runtime.NumCPU()
	}
	if nworkers > units {
		nworkers = units
	}
	t0 := time.Now()
	fmt.Printf("check property=%s tier=%s VERIF_SEED=%d units<=%d budget=%ds workers=%d\n", prop, tier, seed, units, secs, nworkers)
	vd := VerifDir()
	resDir := filepath.Join(vd, ".build", "results", prop+os.Getenv("VERIF_BUILD_TAG"))
	os.RemoveAll(resDir)
	os.MkdirAll(resDir, 0777)
	exe, _ := os.Executable()

	known := loadKnown(prop)
	trouble := []string{}
	// 1. listed findings are re-demonstrated from their committed replay files
	knownLines := []string{}
	for _, k := range known {
		if k.Status != "known" {
			continue
		}
		if k.Demo != "" {
			dm, ok := sc.(scen.Demonstrator)
			var fn func() *sim.Violation
			if ok {
				fn = dm.Demos()[k.Demo]
			}
			if fn == nil {
				trouble = append(trouble, "known finding "+k.Name+": scenario has no demonstration "+k.Demo)
				continue
			}
			v, tr := runDemo(fn)
			switch {
			case tr != "":
				trouble = append(trouble, "demonstration "+k.Demo+": "+tr)
			case v != nil && k.matches(*v):
				knownLines = append(knownLines, fmt.Sprintf("KNOWN-FINDING: property=%s %s", prop, k.What))
			case v != nil:
				trouble = append(trouble, fmt.Sprintf("demonstration %s shows %s, which entry %s does not match", k.Demo, v.Class(), k.Name))
			default:
				fmt.Printf("note: listed finding %q no longer reproduces on this tree (not reported)\n", k.Name)
			}
			continue
		}
		if k.Replay == "" {
			trouble = append(trouble, "known finding "+k.Name+" has neither demo nor replay file")
			continue
		}
		cmd := exec.Command(exe, "--replay", filepath.Join(vd, k.Replay))
		cmd.Env = append(os.Environ(), "VERIF_DIR="+vd)
		out, err := cmd.CombinedOutput()
		code := 0
		if ee, ok := err.(*exec.ExitError); ok {
			code = ee.ExitCode()
		} else if err != nil {
			code = 2
		}
		switch code {
		case 1:
			knownLines = append(knownLines, fmt.Sprintf("KNOWN-FINDING: property=%s %s", prop, k.What))
		case 0:
			fmt.Printf("note: listed finding %q no longer reproduces on this tree (not reported)\n", k.Name)
		default:
			trouble = append(trouble, fmt.Sprintf("replay of known finding %s failed: %s", k.Name, lastLines(string(out), 5)))
		}
	}

	// 2. exploration
	type wproc struct {
		cmd *exec.Cmd
		out string
	}
	var procs []wproc
	for w := 0; w < nworkers; w++ {
		out := filepath.Join(resDir, fmt.Sprintf("w%d.json", w))
		cmd := exec.Command(exe, "--worker", "--property", prop, "--tier", tier, "--seed", strconv.FormatInt(seed, 10),
			"--wid", strconv.Itoa(w), "--nworkers", strconv.Itoa(nworkers), "--units", strconv.Itoa(units), "--secs", strconv.Itoa(secs), "--out", out)
		cmd.Env = append(os.Environ(), "VERIF_DIR="+vd)
		cmd.Stderr = os.Stderr
		cmd.Stdout = os.Stderr
		if err := cmd.Start(); err != nil {
			trouble = append(trouble, "cannot start worker: "+err.Error())
			continue
		}
		procs = append(procs, wproc{cmd, out})
	}
	total := sim.NewStats()
	total.MaxSamp = 5
	total.SetCap = 6_000_000
	var viols []foundViolation
	unitsDone := 0
	watchdog := time.Duration(secs*4+300) * time.Second
	for _, p := range procs {
		done := make(chan error, 1)
		go func() { done <- p.cmd.Wait() }()
		select {
		case err := <-done:
			if err != nil {
				trouble = append(trouble, "worker failed: "+err.Error())
			}
		case <-time.After(watchdog - time.Since(t0)):
			p.cmd.Process.Kill()
			trouble = append(trouble, "worker killed by watchdog")
			continue
		}
		b, err := os.ReadFile(p.out)
		if err != nil {
			trouble = append(trouble, "worker result missing: "+err.Error())
			continue
		}
		var r workerResult
		if err := json.Unmarshal(b, &r); err != nil {
			trouble = append(trouble, "worker result unreadable: "+err.Error())
			continue
		}
		total.Merge(r.Stats)
		viols = append(viols, r.Viol...)
		trouble = append(trouble, r.Trouble...)
		unitsDone += r.Units
	}
	sort.SliceStable(viols, func(i, j int) bool { return viols[i].Unit < viols[j].Unit })

	// 3. classify violations: known / new (new ones are re-run in a fresh process)
	newCount := 0
	seen := map[string]bool{}
	var lines []string
	knownHit := map[string]int{}
	for _, fv := range viols {
		cl := fv.V.Class()
		isKnown := false
		for _, k := range known {
			if k.matches(fv.V) {
				isKnown = true
				knownHit[k.Name] += fv.Count
			}
		}
		if isKnown || seen[cl] {
			continue
		}
		seen[cl] = true
		if fv.Replay == "" {
			trouble = append(trouble, fmt.Sprintf("violation without replay file: %s: %s", cl, fv.V.Msg))
			continue
		}
		cmd := exec.Command(exe, "--replay", fv.Replay)
		cmd.Env = append(os.Environ(), "VERIF_DIR="+vd)
		out, err := cmd.CombinedOutput()
		code := 0
		if ee, ok := err.(*exec.ExitError); ok {
			code = ee.ExitCode()
		} else if err != nil {
			code = 2
		}
		if code != 1 && !strings.HasSuffix(fv.Replay, "-history.json") {
			// the tape alone does not reproduce it in a fresh process: does the finder's unit sequence?
			if hp := writeHistoryReplay(fv.W, fv.Unit, sim.SeedFor(fv.W.Seed, fv.W.Prop, fv.Unit), fv.V); hp != "" {
				cmd := exec.Command(exe, "--replay", hp)
				cmd.Env = append(os.Environ(), "VERIF_DIR="+vd)
				out2, err2 := cmd.CombinedOutput()
				if ee, ok := err2.(*exec.ExitError); ok && ee.ExitCode() == 1 {
					fv.Replay, code, out = hp, 1, out2
				}
			}
		}
		if code != 1 {
			trouble = append(trouble, fmt.Sprintf("violation %s did not reproduce in a fresh process from %s: %s", cl, fv.Replay, lastLines(string(out), 4)))
			continue
		}
		newCount++
		lines = append(lines, fmt.Sprintf("VIOLATION property=%s replay=%s", prop, fv.Replay))
		fmt.Printf("violation: rule=%s sig=%q unit=%d occurrences=%d\n  %s\n", fv.V.Rule, fv.V.Sig, fv.Unit, fv.Count, firstLine(fv.V.Msg))
	}

	// 4. evidence
	wall := time.Since(t0).Seconds()
	evals := total.Counters["evaluations"]
	cov := map[string]interface{}{
		"evaluations":           evals,
		"distinct_nontrivial":   total.SetSize(info.DistinctSet),
		"rule":                  info.Rule,
		"samples":               total.Samples,
		"units":                 unitsDone,
		"runs_per_hour":         int64(float64(evals) / wall * 3600),
		"units_per_hour":        int64(float64(unitsDone) / wall * 3600),
		"simulated_time_events": total.Counters[info.EventsKey],
		"simulated_time_note":   "the repository reads no clock; simulated time is the scheduler's global event counter",
		"components":            info.Components,
		"exhaustive":            false,
	}
	fired := map[string]int64{}
	probes := map[string]int64{}
	other := map[string]int64{}
	for k, v := range total.Counters {
		switch {
		case strings.HasPrefix(k, "fired."):
			fired[strings.TrimPrefix(k, "fired.")] = v
		case strings.HasPrefix(k, "probe."):
			probes[strings.TrimPrefix(k, "probe.")] = v
		default:
			other[k] = v
		}
	}
	zero := []string{}
	for _, k := range info.ProbeKeys {
		if total.Counters[k] == 0 {
			zero = append(zero, k)
		}
	}
	sort.Strings(zero)
	dsets := map[string]int{}
	for k := range total.Sets {
		dsets[k] = total.SetSize(k)
	}
	for k := range total.Counters {
		if strings.HasPrefix(k, "distinct_set_saturated.") {
			cov["distinct_note"] = "distinct counts are lower bounds: a worker remembers at most 600000 hashes per set, the coordinator 6000000"
		}
	}
	cov["faults_fired"] = fired
	cov["probes"] = probes
	cov["probes_zero"] = zero
	cov["counters"] = other
	cov["distinct_sets"] = dsets
	cov["known_findings_matched"] = knownHit
	cov["notes"] = total.Notes
	ev := Evidence{Property: prop, Tier: tier, Seed: seed, Level: sc.Level(), Coverage: cov, Assumptions: info.Assumptions, Wall: wall, Violations: newCount}
	js, _ := json.MarshalIndent(ev, "", " ")
	evDir := filepath.Join(vd, "evidence")
	if d := os.Getenv("VERIF_EVIDENCE_DIR"); d != "" {
		evDir = d // runs against a scratch copy of the repository must not overwrite the real evidence
	}
	os.MkdirAll(evDir, 0777)
	if err := os.WriteFile(filepath.Join(evDir, prop+".json"), js, 0666); err != nil {
		trouble = append(trouble, "cannot write evidence: "+err.Error())
	}
	for _, z := range zero {
		fmt.Fprintf(os.Stderr, "warning: probe %s never fired in this run\n", z)
	}
	fmt.Printf("done property=%s units=%d runs=%d distinct=%d wall=%.1fs new_violations=%d known_listed=%d\n", prop, unitsDone, evals, total.SetSize(info.DistinctSet), wall, newCount, len(knownLines))
	for _, l := range knownLines {
		fmt.Println(l)
	}
	for _, l := range lines {
		fmt.Println(l)
	}
	if len(trouble) > 0 {
		for _, t := range trouble {
			fmt.Fprintln(os.Stderr, "TROUBLE:", t)
		}
		if newCount > 0 {
			return 1
		}
		return 2
	}
	if evals == 0 {
		fmt.Fprintln(os.Stderr, "TROUBLE: nothing was explored")
		return 2
	}
	if newCount > 0 {
		return 1
	}
	return 0
}

func lastLines(s string, n int) string {
	ls := strings.Split(strings.TrimSpace(s), "\n")
	if len(ls) > n {
		ls = ls[len(ls)-n:]
	}
	return strings.Join(ls, " | ")
}

func firstLine(s string) string {
	if i := strings.IndexByte(s, '\n'); i >= 0 {
		return s[:i]
	}
	return s
}

// Main parses the command line shared by all modes.
func Main(args []string) int {
	var c workerCfg
	var worker bool
	var replay, selftest string
	nw := 0
	for i := 0; i < len(args); i++ {
		next := func() string {
			i++
			if i < len(args) {
				return args[i]
			}
			return ""
		}
		switch args[i] {
		case "--worker":
			worker = true
		case "--property":
			c.Prop = next()
		case "--tier":
			c.Tier = next()
		case "--seed":
			c.Seed, _ = strconv.ParseInt(next(), 10, 64)
		case "--wid":
			c.Wid, _ = strconv.Atoi(next())
		case "--nworkers":
			c.NW, _ = strconv.Atoi(next())
			nw = c.NW
		case "--units":
			c.Units, _ = strconv.Atoi(next())
		case "--secs":
			c.Secs, _ = strconv.Atoi(next())
		case "--start":
			c.Start, _ = strconv.Atoi(next())
		case "--out":
			c.Out = next()
		case "--replay":
			replay = next()
		case "--selftest":
			selftest = next()
		default:
			fmt.Fprintln(os.Stderr, "unknown argument", args[i])
			return 2
		}
	}
	switch {
	case replay != "":
		return Replay(replay)
	case worker:
		if Registry[c.Prop] == nil {
			return 2
		}
		return Worker(c)
	case selftest == "determinism":
		return Determinism(c.Prop, c.Units)
	}
	if c.Tier == "" {
		c.Tier = os.Getenv("VERIF_TIER")
	}
	if c.Tier == "" {
		c.Tier = "quick"
	}
	return Check(c.Prop, c.Tier, nw)
}

// Determinism runs the same units in several processes at GOMAXPROCS 1, 4 and
// 16 and diffs the per-unit event-log hashes.
func Determinism(prop string, units int) int {
	if units <= 0 {
		units = 24
	}
	exe, _ := os.Executable()
	vd := VerifDir()
	resDir := filepath.Join(vd, ".build", "results", prop+"-det"+os.Getenv("VERIF_BUILD_TAG"))
	os.RemoveAll(resDir)
	os.MkdirAll(resDir, 0777)
	seed := envInt("VERIF_SEED", 20260925)
	type pr struct {
		cmd *exec.Cmd
		out string
		tag string
	}
	var ps []pr
	n := 0
	for _, gmp := range []string{"1", "4", "16"} {
		for rep := 0; rep < 10; rep++ {
			out := filepath.Join(resDir, fmt.Sprintf("d%d.json", n))
			n++
			cmd := exec.Command(exe, "--worker", "--property", prop, "--tier", "quick", "--seed", strconv.FormatInt(seed, 10),
				"--wid", "0", "--nworkers", "1", "--units", strconv.Itoa(units), "--secs", "0", "--out", out)
			cmd.Env = append(os.Environ(), "GOMAXPROCS="+gmp, "VERIF_DIR="+vd, "VERIF_NOREPLAYFILES=1")
			cmd.Stderr = os.Stderr
			if err := cmd.Start(); err != nil {
				fmt.Fprintln(os.Stderr, err)
				return 2
			}
			ps = append(ps, pr{cmd, out, "GOMAXPROCS=" + gmp})
		}
	}
	var ref map[string]uint64
	bad := 0
	for _, p := range ps {
		if err := p.cmd.Wait(); err != nil {
			fmt.Fprintln(os.Stderr, "determinism: worker failed:", err)
			return 2
		}
		b, _ := os.ReadFile(p.out)
		var r workerResult
		if json.Unmarshal(b, &r) != nil {
			return 2
		}
		if ref == nil {
			ref = r.UnitHashes
			continue
		}
		for k, v := range ref {
			if r.UnitHashes[k] != v {
				bad++
				fmt.Fprintf(os.Stderr, "determinism: unit %s differs (%s)\n", k, p.tag)
			}
		}
	}
	fmt.Printf("determinism property=%s processes=%d units=%d mismatches=%d\n", prop, len(ps), units, bad)
	if bad > 0 {
		return 2
	}
	return 0
}
