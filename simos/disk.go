// Package simos is the simulated disk: a control layer over a real directory
// (tmpfs). Every call is containment-checked, yields to the seeded scheduler,
// consults the fault plan and is then executed by the real kernel, so rename /
// O_EXCL / ENOENT semantics are exactly real while ordering, faults and
// crashes are the simulator's.
package simos

import (
	"fmt"
	"os"
	"path/filepath"
	"strings"
	"syscall"

	"github.com/ipld/go-ipld-prime/zzsimhook"

	"verif/sim"
)

type Call struct {
	Idx   int
	Task  int
	Op    string
	Path  string
	Path2 string
	N     int
	Err   string
	Mut   bool // mutates durable state (a crash point worth enumerating)
}

func (c Call) String() string {
	s := fmt.Sprintf("#%d t%d %s %s", c.Idx, c.Task, c.Op, c.Path)
	if c.Path2 != "" {
		s += " -> " + c.Path2
	}
	if c.Op == "write" || c.Op == "read" || c.Op == "pread" {
		s += fmt.Sprintf(" n=%d", c.N)
	}
	if c.Err != "" {
		s += " ERR=" + c.Err
	}
	return s
}

// Fault kinds for one call.
type Fault struct {
	Errno syscall.Errno
	// Short: for write faults, persist this many bytes then fail (-1: none).
	Short int
	// Perform: execute the call for real and still report the error
	// (mkdir losing a race: directory exists afterwards, EEXIST returned).
	Perform bool
}

type Disk struct {
	// NoReplaceRename: rename fails with EEXIST when the destination is an existing file
	// (rename semantics differ between platforms; code that handles EEXIST is exercised this way).
	NoReplaceRename bool
	S               *sim.Sim
	Base            string // containment root (the store's base directory)

	Trace    []Call
	KeepPath bool
	Dead     bool

	CrashAt        int // call index at which the process dies (-1: never)
	CrashPrefixSel int // 0: die before the call; 1..4: inside a write, persisting 0 / 1 / len/2 / len-1 bytes
	Faults         map[int]Fault
	ErrAt          map[int]int // call index -> fault variant, resolved against the op when the call happens

	SplitWrites  bool // split large writes into two real writes with a yield between
	RandCollide  int  // percent chance RandRead repeats its previous output
	lastRand     []byte
	Escapes      []string
	open         map[*os.File]bool
	Fired        map[string]int
	Probes       map[string]int
	randN        uint64
	UnknownCalls []string
}

func NewDisk(s *sim.Sim, base string) *Disk {
	return &Disk{S: s, Base: filepath.Clean(base), CrashAt: -1,
		Faults: map[int]Fault{}, open: map[*os.File]bool{}, Fired: map[string]int{}, Probes: map[string]int{}}
}

// Install makes this disk the filesystem seen by rewritten library code.
func (d *Disk) Install() { zzsimhook.TheFS = d }
func Uninstall()         { zzsimhook.TheFS = nil }
func (d *Disk) Revive() {
	d.Dead = false
	d.CrashAt = -1
	d.CrashPrefixSel = 0
	d.Faults = map[int]Fault{}
	d.ErrAt = nil
	d.RandCollide = 0
}
func (d *Disk) NCalls() int { return len(d.Trace) }

// CloseAll closes descriptors the workload leaked (abandoned streams, dead disk).
func (d *Disk) CloseAll() {
	for f := range d.open {
		f.Close()
	}
	d.open = map[*os.File]bool{}
}

func (d *Disk) rel(p string) string {
	if r, err := filepath.Rel(d.Base, p); err == nil {
		return r
	}
	return p
}

func (d *Disk) contained(p string) bool {
	if !filepath.IsAbs(p) {
		return false
	}
	c := filepath.Clean(p)
	return c == d.Base || strings.HasPrefix(c, d.Base+string(os.PathSeparator))
}

func perr(op, path string, e syscall.Errno) error {
	return &os.PathError{Op: op, Path: path, Err: e}
}

// perr2 gives an injected failure the error type the real call would have:
// os.Rename / os.Link / os.Symlink fail with *os.LinkError, everything else with *os.PathError
// (code that tells "rename refused" from other failures by type must meet the real type).
func perr2(op, p1, p2 string, e syscall.Errno) error {
	if p2 != "" && (op == "rename" || op == "link") {
		return &os.LinkError{Op: op, Old: p1, New: p2, Err: e}
	}
	return perr(op, p1, e)
}

func errName(err error) string {
	if err == nil {
		return ""
	}
	var en syscall.Errno
	switch e := err.(type) {
	case *os.PathError:
		if x, ok := e.Err.(syscall.Errno); ok {
			en = x
		}
	case *os.LinkError:
		if x, ok := e.Err.(syscall.Errno); ok {
			en = x
		}
	case syscall.Errno:
		en = e
	}
	switch en {
	case syscall.ENOENT:
		return "ENOENT"
	case syscall.EEXIST:
		return "EEXIST"
	case syscall.EIO:
		return "EIO"
	case syscall.ENOSPC:
		return "ENOSPC"
	case syscall.EACCES:
		return "EACCES"
	case syscall.EINVAL:
		return "EINVAL"
	case syscall.ENOTDIR:
		return "ENOTDIR"
	case syscall.EISDIR:
		return "EISDIR"
	case syscall.ENAMETOOLONG:
		return "ENAMETOOLONG"
	case syscall.ENOTEMPTY:
		return "ENOTEMPTY"
	case syscall.EMFILE:
		return "EMFILE"
	case 0:
		return "err"
	}
	return en.Error()
}

// begin registers a call, yields, and decides its fate.
// It returns (idx, fault, proceed). When proceed is false the caller returns ferr.
func (d *Disk) begin(op, p1, p2 string, n int, mut bool) (idx int, flt *Fault, ferr error, proceed bool) {
	d.S.Yield("fs." + op)
	idx = len(d.Trace)
	c := Call{Idx: idx, Task: d.S.Cur(), Op: op, N: n, Mut: mut}
	c.Path = d.rel(p1)
	if p2 != "" {
		c.Path2 = d.rel(p2)
	}
	d.Trace = append(d.Trace, c)
	if d.Dead {
		d.setErr(idx, "DEAD")
		return idx, nil, perr(op, p1, syscall.EIO), false
	}
	for _, p := range []string{p1, p2} {
		if p != "" && !d.contained(p) {
			d.Escapes = append(d.Escapes, fmt.Sprintf("%s %q", op, p))
			d.setErr(idx, "ESCAPE")
			return idx, nil, perr(op, p, syscall.EACCES), false
		}
	}
	if idx == d.CrashAt {
		if op == "write" && d.CrashPrefixSel > 0 {
			// caller persists the prefix, then the disk dies
			k := 0
			switch d.CrashPrefixSel {
			case 2:
				k = 1
			case 3:
				k = n / 2
			case 4:
				k = n - 1
			}
			if k > n {
				k = n
			}
			if k < 0 {
				k = 0
			}
			return idx, &Fault{Errno: syscall.EIO, Short: k}, nil, true
		}
		d.Dead = true
		d.Fired["crash."+op]++
		d.setErr(idx, "CRASH")
		return idx, nil, perr(op, p1, syscall.EIO), false
	}
	if v, ok := d.ErrAt[idx]; ok {
		if f, ok := ResolveFault(op, v, n, mut); ok {
			d.Faults[idx] = f
		}
	}
	if f, ok := d.Faults[idx]; ok {
		d.Fired["err."+op+"."+errName(f.Errno)]++
		if op == "write" && f.Short >= 0 || f.Perform {
			return idx, &f, nil, true
		}
		d.setErr(idx, errName(f.Errno))
		return idx, nil, perr2(op, p1, p2, f.Errno), false
	}
	return idx, nil, nil, true
}

func (d *Disk) setErr(idx int, s string) {
	d.Trace[idx].Err = s
	d.S.Log.Add(d.Trace[idx].String())
}

func (d *Disk) done(idx int, err error) {
	if err != nil {
		d.Trace[idx].Err = errName(err)
	}
	d.S.Log.Add(d.Trace[idx].String())
	d.S.Yield("fs.ret")
}

type file struct {
	d        *Disk
	f        *os.File
	name     string
	writable bool
	closed   bool
}

func (d *Disk) OpenFile(name string, flag int, perm os.FileMode) (*zzsimhook.File, error) {
	mut := flag&(os.O_CREATE|os.O_TRUNC) != 0
	op := "open"
	if flag&os.O_CREATE != 0 {
		op = "create"
	}
	idx, _, ferr, ok := d.begin(op, name, "", 0, mut)
	if !ok {
		return nil, ferr
	}
	f, err := os.OpenFile(name, flag, perm)
	d.done(idx, err)
	if err != nil {
		return nil, err
	}
	d.open[f] = true
	return &zzsimhook.File{Impl: &file{d: d, f: f, name: name, writable: flag&(os.O_WRONLY|os.O_RDWR) != 0}}, nil
}

func (f *file) Name() string { return f.name }

func (f *file) Write(p []byte) (int, error) {
	d := f.d
	idx, flt, ferr, ok := d.begin("write", f.name, "", len(p), true)
	if !ok {
		return 0, ferr
	}
	if flt != nil {
		k := flt.Short
		if k > len(p) {
			k = len(p)
		}
		if k < 0 {
			k = 0
		}
		n, _ := f.f.Write(p[:k])
		if idx == d.CrashAt {
			d.Dead = true
			d.Fired["crash.write.prefix"]++
			d.Trace[idx].N = n
			d.setErr(idx, "CRASH")
			return n, perr("write", f.name, syscall.EIO)
		}
		d.Trace[idx].N = n
		d.setErr(idx, errName(flt.Errno)+"(short)")
		return n, perr("write", f.name, flt.Errno)
	}
	var n int
	var err error
	if d.SplitWrites && len(p) >= 2 {
		h := len(p) / 2
		n, err = f.f.Write(p[:h])
		if err == nil {
			d.S.Yield("fs.write.mid")
			var m int
			if d.Dead { // crashed by another task between the halves
				d.Trace[idx].N = n
				d.setErr(idx, "DEAD")
				return n, perr("write", f.name, syscall.EIO)
			}
			m, err = f.f.Write(p[h:])
			n += m
			d.Probes["split_write"]++
		}
	} else {
		n, err = f.f.Write(p)
	}
	d.done(idx, err)
	return n, err
}

func (f *file) Read(p []byte) (int, error) {
	d := f.d
	idx, _, ferr, ok := d.begin("read", f.name, "", len(p), false)
	if !ok {
		return 0, ferr
	}
	n, err := f.f.Read(p)
	d.Trace[idx].N = n
	if err != nil && err.Error() == "EOF" {
		d.done(idx, nil)
		return n, err
	}
	d.done(idx, err)
	return n, err
}

func (f *file) ReadAt(p []byte, off int64) (int, error) {
	d := f.d
	idx, _, ferr, ok := d.begin("pread", f.name, "", len(p), false)
	if !ok {
		return 0, ferr
	}
	n, err := f.f.ReadAt(p, off)
	d.Trace[idx].N = n
	if err != nil && err.Error() == "EOF" {
		d.done(idx, nil)
		return n, err
	}
	d.done(idx, err)
	return n, err
}

func (f *file) Close() error {
	d := f.d
	idx, flt, ferr, ok := d.begin("close", f.name, "", 0, f.writable)
	// the real descriptor is always released: closing changes no durable state
	var err error
	if !f.closed {
		f.closed = true
		err = f.f.Close()
		delete(d.open, f.f)
	} else {
		err = os.ErrClosed
	}
	if !ok {
		return ferr
	}
	if flt != nil {
		d.setErr(idx, errName(flt.Errno))
		return perr("close", f.name, flt.Errno)
	}
	d.done(idx, err)
	return err
}

func (f *file) Seek(off int64, wh int) (int64, error) {
	idx, _, ferr, ok := f.d.begin("seek", f.name, "", 0, false)
	if !ok {
		return 0, ferr
	}
	n, err := f.f.Seek(off, wh)
	f.d.done(idx, err)
	return n, err
}

func (f *file) Sync() error {
	idx, _, ferr, ok := f.d.begin("fsync", f.name, "", 0, false)
	if !ok {
		return ferr
	}
	err := f.f.Sync()
	f.d.done(idx, err)
	return err
}

func (f *file) Stat() (os.FileInfo, error) {
	idx, _, ferr, ok := f.d.begin("fstat", f.name, "", 0, false)
	if !ok {
		return nil, ferr
	}
	fi, err := f.f.Stat()
	f.d.done(idx, err)
	return fi, err
}

func (f *file) Truncate(size int64) error {
	idx, _, ferr, ok := f.d.begin("ftruncate", f.name, "", int(size), true)
	if !ok {
		return ferr
	}
	err := f.f.Truncate(size)
	f.d.done(idx, err)
	return err
}

func (d *Disk) simple(op, p1, p2 string, mut bool, do func() error) error {
	idx, flt, ferr, ok := d.begin(op, p1, p2, 0, mut)
	if !ok {
		return ferr
	}
	err := do()
	if flt != nil && flt.Perform {
		d.setErr(idx, errName(flt.Errno)+"(performed)")
		return perr2(op, p1, p2, flt.Errno)
	}
	d.done(idx, err)
	return err
}

func (d *Disk) Rename(a, b string) error {
	return d.simple("rename", a, b, true, func() error {
		if fi, e := os.Lstat(b); e == nil {
			d.Probes["rename_over_existing"]++
			if d.NoReplaceRename && !fi.IsDir() {
				// a platform whose rename refuses to replace an existing file
				d.Fired["platform.rename_refuses_to_replace"]++
				return &os.LinkError{Op: "rename", Old: a, New: b, Err: syscall.EEXIST}
			}
		}
		return os.Rename(a, b)
	})
}
func (d *Disk) Mkdir(p string, perm os.FileMode) error {
	return d.simple("mkdir", p, "", true, func() error { return os.Mkdir(p, perm) })
}
func (d *Disk) MkdirAll(p string, perm os.FileMode) error {
	return d.simple("mkdirall", p, "", true, func() error { return os.MkdirAll(p, perm) })
}
func (d *Disk) Remove(p string) error {
	return d.simple("remove", p, "", true, func() error { return os.Remove(p) })
}
func (d *Disk) RemoveAll(p string) error {
	return d.simple("removeall", p, "", true, func() error { return os.RemoveAll(p) })
}
func (d *Disk) Link(a, b string) error {
	return d.simple("link", a, b, true, func() error { return os.Link(a, b) })
}
func (d *Disk) Symlink(a, b string) error {
	// the link target is content, not a path we touch; only b is checked
	return d.simple("symlink", b, "", true, func() error { return os.Symlink(a, b) })
}
func (d *Disk) Truncate(p string, size int64) error {
	return d.simple("truncate", p, "", true, func() error { return os.Truncate(p, size) })
}
func (d *Disk) Chmod(p string, m os.FileMode) error {
	return d.simple("chmod", p, "", true, func() error { return os.Chmod(p, m) })
}
func (d *Disk) Stat(p string) (fi os.FileInfo, err error) {
	err = d.simple("stat", p, "", false, func() error { var e error; fi, e = os.Stat(p); return e })
	return
}
func (d *Disk) Lstat(p string) (fi os.FileInfo, err error) {
	err = d.simple("lstat", p, "", false, func() error { var e error; fi, e = os.Lstat(p); return e })
	return
}
func (d *Disk) ReadFile(p string) (b []byte, err error) {
	err = d.simple("readfile", p, "", false, func() error { var e error; b, e = os.ReadFile(p); return e })
	return
}
func (d *Disk) WriteFile(p string, data []byte, perm os.FileMode) error {
	// modelled as create + write + close so crash points fall inside it
	f, err := d.OpenFile(p, os.O_WRONLY|os.O_CREATE|os.O_TRUNC, perm)
	if err != nil {
		return err
	}
	_, err = f.Write(data)
	if e := f.Close(); err == nil {
		err = e
	}
	return err
}
func (d *Disk) ReadDir(p string) (es []os.DirEntry, err error) {
	err = d.simple("readdir", p, "", false, func() error { var e error; es, e = os.ReadDir(p); return e })
	return
}

// RandRead is the simulated crypto/rand: names come from the tape. With
// RandCollide it sometimes repeats its previous output so that O_EXCL retry
// loops are exercised.
func (d *Disk) RandRead(b []byte) (int, error) {
	if d.lastRand != nil && len(d.lastRand) == len(b) && d.RandCollide > 0 && d.S.T.Pct(d.RandCollide, "rand.collide") {
		copy(b, d.lastRand)
		d.Probes["rand_repeat"]++
		return len(b), nil
	}
	// tape choice mixed with a per-disk counter: names stay distinct even when
	// a shrunk tape has run out and every choice replays as 0
	st := d.S.T.Sub("rand")
	d.randN++
	for i := uint64(0); i < d.randN; i++ {
		st.U64()
	}
	copy(b, st.Bytes(len(b)))
	d.lastRand = append([]byte(nil), b...)
	return len(b), nil
}

// FaultVariants lists the realistic failures of one kind of call. ENOENT is
// never injected on reads of existing files and EEXIST never on rename: both
// would make the kernel lie about state rather than fail.
func FaultVariants(op string, n int, mut bool) []Fault {
	switch op {
	case "create":
		return []Fault{{Errno: syscall.ENOSPC, Short: -1}, {Errno: syscall.EACCES, Short: -1}, {Errno: syscall.EMFILE, Short: -1}}
	case "open":
		return []Fault{{Errno: syscall.EIO, Short: -1}, {Errno: syscall.EMFILE, Short: -1}}
	case "write":
		fs := []Fault{{Errno: syscall.EIO, Short: 0}, {Errno: syscall.ENOSPC, Short: 0}}
		if n >= 2 {
			fs = append(fs, Fault{Errno: syscall.ENOSPC, Short: 1}, Fault{Errno: syscall.ENOSPC, Short: n / 2}, Fault{Errno: syscall.EIO, Short: n - 1})
		}
		return fs
	case "read", "pread":
		return []Fault{{Errno: syscall.EIO, Short: -1}}
	case "close":
		if mut {
			return []Fault{{Errno: syscall.EIO, Short: -1}, {Errno: syscall.ENOSPC, Short: -1}}
		}
		return nil
	case "rename":
		return []Fault{{Errno: syscall.EIO, Short: -1}, {Errno: syscall.ENOSPC, Short: -1}, {Errno: syscall.EACCES, Short: -1}}
	case "mkdir":
		return []Fault{{Errno: syscall.ENOSPC, Short: -1}, {Errno: syscall.EIO, Short: -1}, {Errno: syscall.EEXIST, Short: -1, Perform: true}}
	case "remove":
		return []Fault{{Errno: syscall.EIO, Short: -1}, {Errno: syscall.EACCES, Short: -1}}
	case "stat", "lstat":
		return []Fault{{Errno: syscall.EIO, Short: -1}, {Errno: syscall.EACCES, Short: -1}}
	}
	return []Fault{{Errno: syscall.EIO, Short: -1}}
}

func ResolveFault(op string, variant, n int, mut bool) (Fault, bool) {
	vs := FaultVariants(op, n, mut)
	if len(vs) == 0 {
		return Fault{}, false
	}
	return vs[variant%len(vs)], true
}
