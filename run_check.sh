#!/bin/bash
# usage: ./run_check.sh <property id> <quick|thorough>  |  <id> replay <file>  |  <id> determinism [units]
# Rebuilds the overlay and the driver from the repository's CURRENT working
# tree (VERIF_REPO, default /repo) and runs the check.
# exit 0 held / 1 VIOLATION / 2 build, determinism or watchdog trouble.
set -u
ID="$1"; TIER="${2:-${VERIF_TIER:-quick}}"
cd "$(dirname "$0")"
export VERIF_DIR="$PWD"
REPO="${VERIF_REPO:-/repo}"
export GOFLAGS=-mod=mod GOPROXY=off
unset GOTOOLCHAIN GOSUMDB
# VERIF_BUILD_TAG keeps concurrent runs of one check (scratch-repo trials) out of each other's build output
B="$VERIF_DIR/.build/$ID${VERIF_BUILD_TAG:+.$VERIF_BUILD_TAG}"
mkdir -p "$B" bin
GO=go
if ! go version >/dev/null 2>&1 || ! (cd "$REPO" && go list -m >/dev/null 2>&1); then
  export GOTOOLCHAIN=local; GO=go1.26.8
fi
build_fail() { echo "BUILD-TROUBLE: $1" >&2; exit 2; }
if [ ! -x bin/instrument ] || [ cmd/instrument/main.go -nt bin/instrument ]; then
  $GO build -o bin/instrument ./cmd/instrument || build_fail "instrument"
fi
YIELD=""
RACE=""
case "$ID" in
  C05|C17|C18) YIELD="storage,storage/fsstore,storage/sharding,storage/memstore,linking,linking/cid" ;;
  C20) YIELD="datamodel,node/basicnode,node/bindnode,node/gendemo,schema,traversal,traversal/selector,linking,linking/cid,multicodec,codec,codec/dagcbor,codec/dagjson,codec/cbor,codec/json,codec/raw,storage/memstore,storage/fsstore,storage,printer,node/mixins,schema/dsl,schema/dmt,fluent/qp" ;;
esac
DETMAPS=""
RGO="$GO"
if [ "$ID" = "C20" ]; then
  # The race child is built with a runtime whose map hashing / iteration order is fixed
  # (replay determinism). Overlays may not touch files under GOMODCACHE, where the
  # auto-downloaded toolchain lives, so that GOROOT is reached through a symlink.
  REALROOT="$(cd "$REPO" && $GO env GOROOT)"
  ln -sfn "$REALROOT" "$VERIF_DIR/.build/goroot-c20"
  DETMAPS="$VERIF_DIR/.build/goroot-c20"
  RGO="env GOROOT=$DETMAPS GOTOOLCHAIN=local $DETMAPS/bin/go"
fi
COOP=".,datamodel,fluent,fluent/qp,linking,linking/cid,linking/preload,multicodec,codec,codec/dagcbor,codec/dagjson,codec/cbor,codec/json,codec/raw,node/basicnode,node/bindnode,node/mixins,schema,schema/dmt,schema/dsl,storage,storage/fsstore,storage/memstore,storage/sharding,traversal,traversal/selector,traversal/selector/builder,traversal/patch,printer"
./bin/instrument -repo "$REPO" -out "$B/overlay" -fs -coop "$COOP" ${YIELD:+-yield "$YIELD"} ${DETMAPS:+-detmaps "$DETMAPS"} >"$B/instrument.log" 2>&1 || { cat "$B/instrument.log" >&2; build_fail "overlay generation"; }
MODFLAG=""
if [ "$REPO" != "/repo" ]; then
  export VERIF_EVIDENCE_DIR="$B/evidence-scratch-repo"
  sed "s#=> /repo#=> $REPO#" go.mod > "$B/go.mod"; cp go.sum "$B/go.sum"
  MODFLAG="-modfile=$B/go.mod"
fi
$RGO build $MODFLAG -overlay "$B/overlay/overlay.json" -o "$B/simcheck" ./cmd/simcheck >"$B/build.log" 2>&1 || { tail -30 "$B/build.log" >&2; build_fail "driver build against $REPO"; }
if [ "$ID" = "C20" ]; then
  $RGO build $MODFLAG -race -overlay "$B/overlay/overlay.json" -o "$B/simcheck.race" ./cmd/simcheck >"$B/build-race.log" 2>&1 || { tail -30 "$B/build-race.log" >&2; build_fail "race build against $REPO"; }
  export VERIF_RACE_BIN="$B/simcheck.race"
fi
if [ "$TIER" = "replay" ]; then exec "$B/simcheck" --replay "$3"; fi
if [ "$TIER" = "determinism" ]; then exec "$B/simcheck" --selftest determinism --property "$ID" --units "${3:-24}"; fi
exec "$B/simcheck" --property "$ID" --tier "$TIER"
