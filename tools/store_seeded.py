#!/usr/bin/env python3
"""usage: tools/store_seeded.py mutant <srcdir> <id> <demo place_at> <demo run> <checks> <change> <needs> <result> <missed 0|1>
          tools/store_seeded.py refactor <srcdir> <id> <checks> [note]
Copies a sub-agent's deliverable into /verif/seeded and writes meta.json."""
import json, os, shutil, subprocess, sys, glob
kind = sys.argv[1]
src = sys.argv[2]; ident = sys.argv[3]
base = subprocess.check_output(["git", "-C", "/repo", "rev-parse", "--short", "HEAD"]).decode().strip()
root = "/verif/seeded" + ("/refactorings" if kind == "refactor" else "")
dst = os.path.join(root, ident)
os.makedirs(dst, exist_ok=True)
for f in glob.glob(os.path.join(src, "*")):
    if os.path.isfile(f):
        shutil.copy(f, dst)
prop = ident.split("-")[0]
rel = os.path.relpath(dst, "/verif")
if kind == "mutant":
    place, run, checks, change, needs, result, missed = sys.argv[4:11]
    meta = {"property": prop, "wave": int(ident.split("-w")[1].split("-")[0]),
            "author": "independent sub-agent given the property text, a list of ideas already used, and a scratch worktree",
            "change": change, "needs_to_manifest": needs, "base_commit": base,
            "demo": {"place_at": place, "run": run},
            "confirmed": {"how": "tools/confirm_seeded.sh in a scratch worktree", "patch_applies_and_builds": True,
                          "demo_passes_without_change": True, "demo_fails_with_change": True, "existing_suite_passes_with_change": True},
            "checks_run": ["./tools/try_seeded.sh %s/patch.diff %s quick" % (rel, checks)],
            "result": result, "missed_at_first": missed == "1"}
else:
    checks = sys.argv[4]
    meta = {"kind": "behaviour-preserving change (the property still holds)", "property": prop,
            "author": "independent sub-agent given only the property text, the anchored files and a scratch worktree (second wave: asked for correct mutexes, caches and lazy initialisation)",
            "base_commit": base,
            "checks_run": ["./tools/try_seeded.sh %s/patch.diff %s quick" % (rel, checks)],
            "expected": "exit 0 (no alarm)", "result": sys.argv[5] if len(sys.argv) > 5 else "exit 0 on every check run"}
json.dump(meta, open(os.path.join(dst, "meta.json"), "w"), indent=1)
print("stored", dst)
