#!/bin/bash
# usage: tools/try_seeded.sh <patch.diff> <check id>[,<check id>...] [quick|thorough]
# Applies a seeded change to a scratch worktree of /repo (never to /repo itself),
# confirms it builds, runs the named checks against it and removes the worktree.
set -u
PATCH="$(readlink -f "$1")"; IDS="$2"; TIER="${3:-quick}"
cd "$(dirname "$0")/.."
WT="/tmp/try-seeded-$$"
git -C /repo worktree add --detach "$WT" >/dev/null 2>&1 || { echo "cannot create worktree"; exit 2; }
export VERIF_BUILD_TAG="try$$"
trap 'git -C /repo worktree remove --force "$WT" >/dev/null 2>&1; rm -rf .build/*.try'$$' .build/results/*try'$$ EXIT
# a stored change was written against its base commit; later repairs in /repo may have moved its context
# (3-way merge) or rewritten the very lines it changes (then it no longer exists as a change of HEAD: exit 3)
( cd "$WT" && git apply "$PATCH" 2>/dev/null ) || ( cd "$WT" && git checkout -q -- . && git apply --3way "$PATCH" >/dev/null 2>&1 && git reset -q ) || { echo "PATCH-NO-LONGER-APPLIES (the lines it changes were rewritten by a later repair in /repo)"; exit 3; }
( cd "$WT" && GOFLAGS=-mod=mod GOPROXY=off go build ./... ) || { echo "PATCH-DOES-NOT-BUILD"; exit 2; }
rc=0
for id in ${IDS//,/ }; do
  echo "--- $id $TIER against $(basename "$PATCH" .diff)"
  out="$(VERIF_REPO="$WT" ./run_check.sh "$id" "$TIER" 2>&1)"; code=$?
  echo "$out" | grep -E "^(violation:|done |VIOLATION|TROUBLE|BUILD-TROUBLE)" | cut -c1-260 | head -12
  echo "exit=$code"
  [ $code -eq 1 ] && rc=1
done
exit $rc
