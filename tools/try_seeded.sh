#!/bin/bash
# usage: tools/try_seeded.sh <patch.diff> <check id>[,<check id>...] [quick|thorough]
# Applies a seeded change to a scratch worktree of /repo (never to /repo itself),
# confirms it builds, runs the named checks against it and removes the worktree.
set -u
PATCH="$(readlink -f "$1")"; IDS="$2"; TIER="${3:-quick}"
cd "$(dirname "$0")/.."
WT="/tmp/try-seeded-$$"
git -C /repo worktree add --detach "$WT" >/dev/null 2>&1 || { echo "cannot create worktree"; exit 2; }
export VERIF_BUILD_TAG="try$$"
trap 'git -C /repo worktree remove --force "$WT" >/dev/null 2>&1; rm -rf .build/*.try'$$' .build/results/*try'$$ EXIT
( cd "$WT" && git apply "$PATCH" ) || { echo "PATCH-DOES-NOT-APPLY"; exit 2; }
( cd "$WT" && GOFLAGS=-mod=mod GOPROXY=off go build ./... ) || { echo "PATCH-DOES-NOT-BUILD"; exit 2; }
rc=0
for id in ${IDS//,/ }; do
  echo "--- $id $TIER against $(basename "$PATCH" .diff)"
  out="$(VERIF_REPO="$WT" ./run_check.sh "$id" "$TIER" 2>&1)"; code=$?
  echo "$out" | grep -E "^(violation:|done |VIOLATION|TROUBLE|BUILD-TROUBLE)" | cut -c1-260 | head -12
  echo "exit=$code"
  [ $code -eq 1 ] && rc=1
done
exit $rc
