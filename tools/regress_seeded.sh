#!/bin/bash
# Re-runs every stored seeded change (must be reported: exit 1) and every stored
# behaviour-preserving change (must be quiet: exit 0) against the current checks.
# usage: tools/regress_seeded.sh [quick|thorough]   (takes hours; one line per change)
#   REGRESS_JOBS=n runs n changes at a time (each check still uses every core: on a loaded machine a
#   unit-bound quick tier may reach its time cap first; re-run a MISSED line alone before believing it)
#   REGRESS_ONLY=<glob> restricts the run, e.g. 'C06-*' or 'refactorings/C1*'
cd "$(dirname "$0")/.."
export TIER="${1:-quick}"
one() {
  d="$1"
  ids=$(jq -r '.checks_run[0]' "$d/meta.json" | awk '{print $3}')
  case "$d" in
  seeded/refactorings/*)
    out=$(tools/try_seeded.sh "$d/patch.diff" "$ids" "$TIER" 2>&1); rc=$?
    if [ $rc -eq 0 ]; then echo "quiet    $d ($ids)"; elif [ $rc -eq 3 ]; then echo "n/a      $d (no longer applies: a later repair rewrote the lines it changes)"; else echo "ALARM    $d ($ids) rc=$rc $(echo "$out" | grep -E "^violation|TROUBLE" | head -3 | tr '\n' ' ' | cut -c1-400)"; fi ;;
  *)
    if [ "$(jq -r '.still_missed // false' "$d/meta.json")" = "true" ]; then echo "limit    $d (recorded as out of reach of the checks: see its meta.json and DESIGN.md section 12)"; return; fi
    if [ "$(jq -r '.no_longer_breaks_property // false' "$d/meta.json")" = "true" ]; then echo "n/a      $d (does not break the property on HEAD any more: see its meta.json)"; return; fi
    out=$(tools/try_seeded.sh "$d/patch.diff" "$ids" "$TIER" 2>&1); rc=$?
    if [ $rc -eq 1 ]; then echo "caught   $d ($ids)"; elif [ $rc -eq 3 ]; then echo "n/a      $d (no longer applies: a later repair rewrote the lines it changes)"; else echo "MISSED   $d ($ids) rc=$rc"; fi ;;
  esac
}
export -f one
ls -d seeded/C*-w*-m* seeded/refactorings/* | { if [ -n "${REGRESS_ONLY:-}" ]; then grep -E "seeded/($(echo "$REGRESS_ONLY" | sed 's/\*/.*/g'))"; else cat; fi; } |
  xargs -P "${REGRESS_JOBS:-1}" -I{} bash -c 'one {}' | tee /tmp/regress-$$.out
if grep -qE "^(MISSED|ALARM)" /tmp/regress-$$.out; then rm -f /tmp/regress-$$.out; exit 1; fi
rm -f /tmp/regress-$$.out
exit 0
