#!/bin/bash
# Re-runs every stored seeded change (must be reported: exit 1) and every stored
# behaviour-preserving change (must be quiet: exit 0) against the current checks.
# usage: tools/regress_seeded.sh [quick|thorough]   (takes a while; output: one line per change)
cd "$(dirname "$0")/.."
TIER="${1:-quick}"
fail=0
for d in seeded/C*-w*-m*; do
  if [ "$(jq -r '.no_longer_breaks_property // false' "$d/meta.json")" = "true" ]; then echo "n/a      $d (does not break the property on HEAD any more: see its meta.json)"; continue; fi
  ids=$(jq -r '.checks_run[0]' "$d/meta.json" | awk '{print $3}')
  out=$(tools/try_seeded.sh "$d/patch.diff" "$ids" "$TIER" 2>&1); rc=$?
  if [ $rc -eq 1 ]; then echo "caught   $d ($ids)"; elif [ $rc -eq 3 ]; then echo "n/a      $d (no longer applies: a later repair rewrote the lines it changes)"; else echo "MISSED   $d ($ids) rc=$rc"; fail=1; fi
done
for d in seeded/refactorings/*; do
  ids=$(jq -r '.checks_run[0]' "$d/meta.json" | awk '{print $3}')
  out=$(tools/try_seeded.sh "$d/patch.diff" "$ids" "$TIER" 2>&1); rc=$?
  if [ $rc -eq 0 ]; then echo "quiet    $d ($ids)"; elif [ $rc -eq 3 ]; then echo "n/a      $d (no longer applies: a later repair rewrote the lines it changes)"; else echo "ALARM    $d ($ids) rc=$rc"; echo "$out" | grep -E "^violation|TROUBLE" | head -3; fail=1; fi
done
exit $fail
