#!/bin/bash
# usage: tools/confirm_seeded.sh <mutant dir with patch.diff> <demo file> <dest path in tree> <go test args...>
# Confirms in a scratch worktree: demo passes without the change; change applies and builds;
# demo fails with the change; the existing suite still passes (3 known always-failing tests ignored).
set -u
D="$(readlink -f "$1")"; DEMO="$(readlink -f "$2")"; DEST="$3"; shift 3
WT="/tmp/confirm-seeded-$$"
export GOFLAGS=-mod=mod GOPROXY=off
export TMPDIR="/tmp/confirm-tmp-$$"; mkdir -p "$TMPDIR"
git -C /repo worktree add --detach "$WT" >/dev/null 2>&1 || exit 2
trap 'git -C /repo worktree remove --force "$WT" >/dev/null 2>&1' EXIT
cd "$WT"
mkdir -p "$(dirname "$DEST")"; cp "$DEMO" "$DEST"
go test -vet=off -count=1 "$@" >/tmp/confirm-$$-clean.log 2>&1; c1=$?
git apply "$D/patch.diff" || { echo "RESULT patch-does-not-apply"; exit 2; }
go build ./... || { echo "RESULT does-not-build"; exit 2; }
go test -vet=off -count=1 "$@" >/tmp/confirm-$$-mut.log 2>&1; c2=$?
rm -f "$DEST"
go test -vet=off -count=1 ./... 2>&1 | grep -E "^(--- FAIL|FAIL|panic)" | grep -v -E "TestRoundtripSchemaSchema|TestParseSchemaSchema|TestParse |schema/dmt|schema/dsl|^FAIL$" > /tmp/confirm-$$-suite.log
echo "RESULT demo_clean_exit=$c1 demo_mutant_exit=$c2 unexpected_suite_failures=$(wc -l < /tmp/confirm-$$-suite.log)"
[ -s /tmp/confirm-$$-suite.log ] && cat /tmp/confirm-$$-suite.log
tail -3 /tmp/confirm-$$-mut.log
rm -f /tmp/confirm-$$-*.log; rm -rf "$TMPDIR"
