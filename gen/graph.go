package gen

import (
	"fmt"

	cid "github.com/ipfs/go-cid"
	"github.com/ipld/go-ipld-prime/datamodel"
	"github.com/ipld/go-ipld-prime/linking"
	cidlink "github.com/ipld/go-ipld-prime/linking/cid"
	"github.com/ipld/go-ipld-prime/node/basicnode"
	mh "github.com/multiformats/go-multihash"

	"verif/model"
	"verif/sim"
)

// Graph is a seeded DAG of blocks connected by links.
type Graph struct {
	Blocks   []*model.V // as built (insertion order)
	Links    []string   // binary link of block i ("" for the in-memory root)
	Dangling []string   // links that point at nothing
	Root     *model.V
	RootNode datamodel.Node
}

var gkeys = []string{"a", "b", "c", "d", "k", "x", "y", "next", "left", "right", "data", "0", "1", "7"}

func graphValue(t *sim.Tape, links []string, budget *int, depth int, jsonBlock bool) *model.V {
	*budget--
	opts := []model.Kind{model.Int, model.String, model.String, model.Bool, model.Null, model.Bytes, model.Float}
	if len(links) > 0 {
		opts = append(opts, model.Link, model.Link, model.Link, model.Link, model.Link)
	}
	if depth < 3 && *budget > 0 {
		opts = append(opts, model.Map, model.Map, model.List, model.List)
		if depth == 0 {
			opts = []model.Kind{model.Map, model.Map, model.List}
		}
	}
	switch opts[t.Choice(len(opts), "g.kind")] {
	case model.Int:
		return model.IntV(int64(t.Choice(100, "g.int")))
	case model.String:
		return model.StringV([]string{"", "s", "hello world", "héllo wörld 日本語", "0123456789abcdef"}[t.Choice(5, "g.str")])
	case model.Float:
		if jsonBlock {
			return model.FloatV([]float64{0.5, -2.25, 1e300}[t.Choice(3, "g.float")]) // dag-json keeps only floats with a fraction or exponent
		}
		return model.FloatV([]float64{0, 0, 0.5, -1, 1e21}[t.Choice(5, "g.float")])
	case model.Bool:
		return model.BoolV(t.Bool("g.bool"))
	case model.Null:
		return model.NullV()
	case model.Bytes:
		return model.BytesV(t.Sub("g.bytes").Bytes(t.Choice(20, "g.byteslen")))
	case model.Link:
		return model.LinkV(links[t.Choice(len(links), "g.link")])
	case model.List:
		v := &model.V{K: model.List}
		n := 1 + t.Choice(4, "g.listlen")
		for i := 0; i < n && *budget > 0; i++ {
			v.Vals = append(v.Vals, graphValue(t, links, budget, depth+1, jsonBlock))
		}
		return v
	default:
		v := &model.V{K: model.Map}
		n := 1 + t.Choice(4, "g.maplen")
		seen := map[string]bool{}
		for i := 0; i < n && *budget > 0; i++ {
			k := gkeys[t.Choice(len(gkeys), "g.key")]
			if seen[k] {
				continue
			}
			seen[k] = true
			v.Put(k, graphValue(t, links, budget, depth+1, jsonBlock))
		}
		return v
	}
}

// NewGraph builds 1..maxBlocks blocks bottom-up and stores all but the root
// through lsys (fault-free; call before tasks run). Block i may link to any
// earlier block, repeatedly; some links dangle.
func NewGraph(t *sim.Tape, lsys *linking.LinkSystem, maxBlocks int, danglePct int) (*Graph, error) {
	g := &Graph{}
	nb := 1 + t.Choice(maxBlocks, "g.nblocks")
	var avail []string
	for i := 0; i < nb; i++ {
		budget := 3 + t.Choice(14, "g.blocksize")
		links := append([]string(nil), avail...)
		if len(avail) > 0 && t.Pct(danglePct, "g.dangle") {
			c, _ := cid.Prefix{Version: 1, Codec: 0x71, MhType: mh.SHA2_256, MhLength: -1}.Sum([]byte(fmt.Sprintf("dangling-%d", i)))
			links = append(links, c.KeyString())
			g.Dangling = append(g.Dangling, c.KeyString())
		}
		var v *model.V
		jsonBlock := i < nb-1 && t.Pct(15, "g.dagjson")
		if i < nb-1 && t.Pct(12, "g.scalarblock") {
			v = model.StringV("scalar block")
		} else if i < nb-1 && len(avail) > 0 && t.Pct(10, "g.linkblock") {
			// a block whose whole content is one link to an earlier block (a redirect)
			v = model.LinkV(avail[t.Choice(len(avail), "g.linkblock.to")])
		} else {
			v = graphValue(t, links, &budget, 0, jsonBlock || i == nb-1)
		}
		g.Blocks = append(g.Blocks, v)
		n := basicnode.Prototype.Any.NewBuilder()
		if err := model.Assemble(n, v, LinkFromBin, nil); err != nil {
			return nil, err
		}
		node := n.Build()
		if i == nb-1 {
			g.Root, g.RootNode = v, node
			g.Links = append(g.Links, "")
			break
		}
		codec := uint64(0x71)
		if jsonBlock {
			codec = 0x0129
		}
		mht := uint64(mh.SHA2_256)
		if t.Pct(15, "g.identity") {
			mht = mh.IDENTITY // the block travels inside its own link; loaders are still asked for it
		}
		lp := cidlink.LinkPrototype{Prefix: cid.Prefix{Version: 1, Codec: codec, MhType: mht, MhLength: -1}}
		l, err := lsys.Store(linking.LinkContext{}, lp, node)
		if err != nil && mht == mh.IDENTITY {
			// an identity link of a large block can be too long a name for a filesystem store
			lp.MhType = mh.SHA2_256
			l, err = lsys.Store(linking.LinkContext{}, lp, node)
		}
		if err != nil {
			return nil, err
		}
		g.Links = append(g.Links, l.Binary())
		avail = append(avail, l.Binary())
	}
	return g, nil
}
