package gen

import (
	"github.com/ipld/go-ipld-prime/datamodel"
	"github.com/ipld/go-ipld-prime/fluent/qp"
	"github.com/ipld/go-ipld-prime/node/basicnode"
	"github.com/ipld/go-ipld-prime/traversal/selector"
	"github.com/ipld/go-ipld-prime/traversal/selector/builder"

	"verif/sim"
)

// StopLinks, when set, are links that occur in the graph about to be walked: a fifth of the
// recursive clauses get a stop-at condition naming one of them (the builder has no call for it;
// the clause's node is rebuilt with the "!" entry). Set by the scenario before drawing.
var StopLinks []datamodel.Link

// stopAtSpec is a recursive clause with a stop-at condition added.
type stopAtSpec struct{ n datamodel.Node }

func (s stopAtSpec) Node() datamodel.Node { return s.n }
func (s stopAtSpec) Selector() (selector.Selector, error) {
	return selector.ParseSelector(s.n)
}

// withStopAt rebuilds {"R": {...}} as {"R": {..., "!": {"/": link}}}.
func withStopAt(spec builder.SelectorSpec, l datamodel.Link) builder.SelectorSpec {
	body, err := spec.Node().LookupByString(selector.SelectorKey_ExploreRecursive)
	if err != nil {
		return spec
	}
	n, err := qp.BuildMap(basicnode.Prototype.Any, 1, func(ma datamodel.MapAssembler) {
		qp.MapEntry(ma, selector.SelectorKey_ExploreRecursive, qp.Map(-1, func(ma datamodel.MapAssembler) {
			for it := body.MapIterator(); !it.Done(); {
				k, v, err := it.Next()
				if err != nil {
					return
				}
				ks, _ := k.AsString()
				qp.MapEntry(ma, ks, qp.Node(v))
			}
			qp.MapEntry(ma, selector.SelectorKey_StopAt, qp.Map(1, func(ma datamodel.MapAssembler) {
				qp.MapEntry(ma, string(selector.ConditionMode_Link), qp.Link(l))
			}))
		}))
	})
	if err != nil {
		return spec
	}
	return stopAtSpec{n}
}

// Selector draws a selector spec through the repository's own selector builder.
// noSubset replaces subset matchers by plain matchers.
func Selector(t *sim.Tape, ssb builder.SelectorSpecBuilder, depth int, inRec bool, noSubset bool) builder.SelectorSpec {
	return genSelector(t, ssb, depth, inRec, noSubset)
}

// FieldHints, when set, are key names that exist in the graph about to be walked:
// field selectors draw half of their names from them, so that selectors with several
// interests actually meet several children. (Set by the scenario before drawing; one
// simulated world runs at a time per process.)
var FieldHints []string

// InterpretAs, when set, names an ADL reifier the walked link system knows: a tenth of the
// clauses are wrapped in an interpret-as clause naming it. (Set by the scenario before drawing.)
var InterpretAs string

func genSelector(t *sim.Tape, ssb builder.SelectorSpecBuilder, depth int, inRec bool, noSubset bool) builder.SelectorSpec {
	if depth > 3 {
		return ssb.Matcher()
	}
	if InterpretAs != "" && depth > 0 && t.Pct(10, "sel.interpretas") {
		return ssb.ExploreInterpretAs(InterpretAs, genSelector(t, ssb, depth+1, inRec, noSubset))
	}
	opts := []int{0, 0, 1, 2, 2, 3, 4, 5, 6}
	if inRec {
		opts = append(opts, 7, 7, 7)
	} else if depth < 2 {
		opts = append(opts, 8, 8, 8)
	}
	switch opts[t.Choice(len(opts), "sel.kind")] {
	case 0:
		return ssb.Matcher()
	case 1:
		if noSubset {
			return ssb.Matcher()
		}
		a := int64(t.Choice(6, "sel.from"))
		return ssb.MatcherSubset(a, a+int64(t.Choice(8, "sel.len")))
	case 2:
		return ssb.ExploreAll(genSelector(t, ssb, depth+1, inRec, noSubset))
	case 3:
		return ssb.ExploreFields(func(b builder.ExploreFieldsSpecBuilder) {
			n := 1 + t.Choice(3, "sel.nfields")
			used := map[string]bool{}
			for i := 0; i < n; i++ {
				f := []string{"a", "b", "c", "d", "k", "x", "y", "next", "left", "right", "data", "0", "1", "7"}[t.Choice(14, "sel.field")]
				if len(FieldHints) > 0 && t.Bool("sel.hinted") {
					f = FieldHints[t.Choice(len(FieldHints), "sel.hint")]
				}
				if used[f] {
					continue
				}
				used[f] = true
				b.Insert(f, genSelector(t, ssb, depth+1, inRec, noSubset))
			}
		})
	case 4:
		return ssb.ExploreIndex(int64(t.Choice(4, "sel.index")), genSelector(t, ssb, depth+1, inRec, noSubset))
	case 5:
		a := int64(t.Choice(3, "sel.rstart"))
		return ssb.ExploreRange(a, a+int64(1+t.Choice(4, "sel.rlen")), genSelector(t, ssb, depth+1, inRec, noSubset))
	case 6:
		n := 2 + t.Choice(2, "sel.nunion")
		var ms []builder.SelectorSpec
		for i := 0; i < n; i++ {
			ms = append(ms, genSelector(t, ssb, depth+1, inRec, noSubset))
		}
		return ssb.ExploreUnion(ms...)
	case 7:
		return ssb.ExploreRecursiveEdge()
	default:
		lim := selector.RecursionLimitNone()
		if t.Bool("sel.limited") {
			lim = selector.RecursionLimitDepth(int64(1 + t.Choice(5, "sel.depth")))
		}
		var seq builder.SelectorSpec
		switch t.Choice(4, "sel.seq") {
		case 0:
			seq = ssb.ExploreAll(ssb.ExploreRecursiveEdge())
		case 1:
			seq = ssb.ExploreUnion(ssb.Matcher(), ssb.ExploreAll(ssb.ExploreRecursiveEdge()))
		default:
			seq = genSelector(t, ssb, depth+1, true, noSubset)
		}
		rec := ssb.ExploreRecursive(lim, seq)
		if len(StopLinks) > 0 && t.Pct(20, "sel.stopat") {
			return withStopAt(rec, StopLinks[t.Choice(len(StopLinks), "sel.stopat.link")])
		}
		return rec
	}
}
