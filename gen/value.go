// Package gen holds the seeded workload generators. Workload is sampled from
// the same choice tape as schedules and faults but is never the deciding
// dimension of a check.
package gen

import (
	"math"

	cid "github.com/ipfs/go-cid"
	"github.com/ipld/go-ipld-prime/datamodel"
	cidlink "github.com/ipld/go-ipld-prime/linking/cid"
	mh "github.com/multiformats/go-multihash"

	"verif/model"
	"verif/sim"
)

// Codec describes the value domain of one registered codec.
type Codec struct {
	Name     string
	Code     uint64
	Bytes    bool // bytes kind encodable
	Links    bool
	AnyUTF8  bool // strings/keys may hold arbitrary bytes
	JSON     bool // JSON float / reserved-key restrictions
	RawOnly  bool
	SortMode int // how the codec canonicalises map order on encode
}

var (
	DagCbor = Codec{Name: "dag-cbor", Code: 0x71, Bytes: true, Links: true, AnyUTF8: true, SortMode: model.SortLenFirst}
	DagJson = Codec{Name: "dag-json", Code: 0x0129, Bytes: true, Links: true, JSON: true, SortMode: model.SortLexical}
	Cbor    = Codec{Name: "cbor", Code: 0x51, Bytes: true, AnyUTF8: true, SortMode: model.SortNone}
	Json    = Codec{Name: "json", Code: 0x0200, JSON: true, SortMode: model.SortNone}
	Raw     = Codec{Name: "raw", Code: 0x55, RawOnly: true}
	Codecs  = []Codec{DagCbor, DagJson, Cbor, Json, Raw}
)

func CodecByCode(code uint64) Codec {
	for _, c := range Codecs {
		if c.Code == code {
			return c
		}
	}
	return Codec{}
}

var words = []string{"a", "b", "key", "name", "x", "y", "value", "héllo", "日本", "with space", "q\"uote", "back\\slash", "tab\t", "nl\n", "ü", "0", "10", "9", "-", "aa", "ab", "ba", "aaa", "long-key-with-some-length", "😀", "bytes", "!"}

func str(t *sim.Tape, c Codec, key bool) string {
	switch k := t.Choice(12, "str.class"); {
	case k < 7:
		return words[t.Choice(len(words), "str.word")]
	case k == 7:
		if key && c.JSON {
			return "k"
		}
		return ""
	case k == 8:
		if c.AnyUTF8 {
			return string(t.Sub("str.bin").Bytes(1 + t.Choice(12, "str.binlen")))
		}
		return "é  x"
	case k == 9:
		if key {
			return words[t.Choice(len(words), "str.word")] + words[t.Choice(len(words), "str.word2")]
		}
		// multi-chunk string: crosses the decoders' internal read chunking
		n := 3000 + t.Choice(9000, "str.biglen")
		b := make([]byte, n)
		st := t.Sub("str.big")
		for i := range b {
			b[i] = "abcdefghijklmnopqrstuvwxyz0123456789 _-"[st.Intn(39)]
		}
		return string(b)
	case k == 10:
		return "/"
	default:
		return words[t.Choice(len(words), "str.word")] + string(rune('a'+t.Choice(26, "str.sfx")))
	}
}

func float(t *sim.Tape, c Codec) float64 {
	pool := []float64{0.5, -1.25, 3.141592653589793, 1e300, 5e-324, 0.1, 2.5e-10, -7.75e-3, 1.7976931348623157e308, 123456.789, -0.000001}
	if !c.JSON {
		pool = append(pool, 0, 1, -1, 1e21, 123456789012345678, math.Copysign(0, -1), 4294967296)
	}
	return pool[t.Choice(len(pool), "float")]
}

func integer(t *sim.Tape) int64 {
	pool := []int64{0, 1, -1, 23, 24, 255, 256, 65535, 65536, 4294967295, 4294967296, math.MaxInt64, math.MinInt64, -24, -25, -256, -257, 1000000007}
	if t.Pct(30, "int.rand") {
		return int64(t.Sub("int").U64())
	}
	return pool[t.Choice(len(pool), "int")]
}

// Value generates a value inside c's domain. links are CID binaries that link nodes may use.
func Value(t *sim.Tape, c Codec, links []string, budget *int, depth int) *model.V {
	if c.RawOnly {
		n := t.Choice(80, "raw.len")
		if t.Pct(10, "raw.big") {
			n = 4000 + t.Choice(6000, "raw.biglen")
		}
		return model.BytesV(t.Sub("raw").Bytes(n))
	}
	*budget--
	kinds := []model.Kind{model.Null, model.Bool, model.Int, model.Int, model.Float, model.String, model.String}
	if c.Bytes {
		kinds = append(kinds, model.Bytes)
	}
	if c.Links && len(links) > 0 {
		kinds = append(kinds, model.Link, model.Link)
	}
	if depth < 4 && *budget > 0 {
		kinds = append(kinds, model.List, model.Map, model.Map, model.Map)
		if depth == 0 {
			kinds = append(kinds, model.Map, model.Map, model.List)
		}
	}
	switch k := kinds[t.Choice(len(kinds), "kind")]; k {
	case model.Null:
		return model.NullV()
	case model.Bool:
		return model.BoolV(t.Bool("bool"))
	case model.Int:
		return model.IntV(integer(t))
	case model.Float:
		return model.FloatV(float(t, c))
	case model.String:
		return model.StringV(str(t, c, false))
	case model.Bytes:
		n := t.Choice(40, "bytes.len")
		if t.Pct(8, "bytes.big") {
			n = 4000 + t.Choice(5000, "bytes.biglen")
		}
		return model.BytesV(t.Sub("bytes").Bytes(n))
	case model.Link:
		return model.LinkV(links[t.Choice(len(links), "link")])
	case model.List:
		v := &model.V{K: model.List}
		n := t.Choice(6, "list.len")
		for i := 0; i < n && *budget > 0; i++ {
			v.Vals = append(v.Vals, Value(t, c, links, budget, depth+1))
		}
		return v
	default:
		if c.JSON && c.Links && t.Pct(6, "map.nearmiss") {
			// near misses of dag-json's reserved forms: ordinary data that a decoder's lookahead must hand back
			switch t.Choice(5, "map.nearmiss.kind") {
			case 0:
				return model.MapV().Put("/", model.MapV().Put("bytes", model.StringV("YWJj")).Put("z", model.IntV(1)))
			case 1:
				return model.MapV().Put("/", model.MapV().Put("bytes", model.IntV(5)))
			case 2:
				return model.MapV().Put("/", model.MapV().Put("bytes", model.StringV("YWJj"))).Put("z", model.BoolV(true))
			case 3:
				return model.MapV().Put("/", model.IntV(7))
			default:
				return model.MapV().Put("/", model.MapV().Put("bytes", model.StringV("YWJj")).Put("bytes2", model.NullV())).Put("a", model.StringV("after"))
			}
		}
		v := &model.V{K: model.Map}
		n := t.Choice(7, "map.len")
		seen := map[string]bool{}
		for i := 0; i < n && *budget > 0; i++ {
			k := str(t, c, true)
			if seen[k] {
				continue
			}
			seen[k] = true
			x := Value(t, c, links, budget, depth+1)
			v.Put(k, x)
		}
		// dag-json reserves the map whose ONLY key is "/" (link and bytes forms); a map that has
		// "/" among several keys is ordinary data and stays in the domain
		if c.JSON && len(v.Keys) == 1 && v.Keys[0] == "/" {
			v.Keys[0] = "slash"
		}
		return v
	}
}

// ---- link prototypes ----

type Proto struct {
	cidlink.LinkPrototype
	Codec Codec
	Desc  string
}

var MhTypes = []uint64{mh.SHA2_256, mh.SHA2_512, mh.SHA3_256, mh.SHA3_512, mh.BLAKE2B_MIN + 31, mh.IDENTITY}

func fullLen(t uint64) int {
	switch t {
	case mh.SHA2_256, mh.SHA3_256, mh.BLAKE2B_MIN + 31:
		return 32
	case mh.SHA2_512, mh.SHA3_512:
		return 64
	}
	return -1
}

// LinkProto draws a link prototype: CID v0/v1 x codec x multihash x digest length.
func LinkProto(t *sim.Tape, codecs []Codec, allowV0 bool) Proto {
	return LinkProtoMin(t, codecs, allowV0, 1)
}

// LinkProtoMin is LinkProto with a lower bound on truncated digest lengths
// (scenarios that identify values by their links need collision-free digests).
func LinkProtoMin(t *sim.Tape, codecs []Codec, allowV0 bool, minLen int) Proto {
	c := codecs[t.Choice(len(codecs), "lp.codec")]
	mt := MhTypes[t.Choice(len(MhTypes), "lp.mh")]
	ver := uint64(1)
	ln := -1
	switch t.Choice(4, "lp.len") {
	case 0:
		ln = -1
	case 1:
		ln = fullLen(mt)
	case 2:
		if fl := fullLen(mt); fl > 0 {
			ln = 4 + t.Choice(fl-4, "lp.trunc")
		}
	case 3:
		if fl := fullLen(mt); fl > 0 {
			ln = []int{1, 2, 3, 20}[t.Choice(4, "lp.short")]
			if ln < minLen {
				ln = minLen
			}
		}
	}
	if mt == mh.IDENTITY {
		// an identity digest is the whole block whatever MhLength says: give it a length
		// sometimes (shorter than most blocks), it must make no difference
		ln = []int{-1, -1, 2, 5, 16}[t.Choice(5, "lp.idlen")]
	}
	desc := ""
	if allowV0 && t.Pct(12, "lp.v0") {
		// CIDv0: dag-pb codec number, sha2-256, full digest. Needs 0x70 in the registry.
		ver, mt, ln = 0, mh.SHA2_256, []int{-1, 32}[t.Choice(2, "lp.v0len")]
		return Proto{cidlink.LinkPrototype{Prefix: cid.Prefix{Version: 0, Codec: 0x70, MhType: mt, MhLength: ln}}, c, "v0"}
	}
	return Proto{cidlink.LinkPrototype{Prefix: cid.Prefix{Version: ver, Codec: c.Code, MhType: mt, MhLength: ln}}, c, desc}
}

func LinkFromBin(bin string) datamodel.Link {
	c, err := cid.Cast([]byte(bin))
	if err != nil {
		panic("gen: bad cid binary: " + err.Error())
	}
	return cidlink.Link{Cid: c}
}

// SomeCids returns n distinct valid CID binaries (targets need not exist).
func SomeCids(t *sim.Tape, n int) []string {
	var out []string
	for i := 0; i < n; i++ {
		p := cid.Prefix{Version: 1, Codec: []uint64{0x71, 0x55, 0x0129}[t.Choice(3, "cid.codec")], MhType: []uint64{mh.SHA2_256, mh.IDENTITY, mh.SHA2_512}[t.Choice(3, "cid.mh")], MhLength: -1}
		if i == 0 && t.Bool("cid.v0") {
			p = cid.Prefix{Version: 0, Codec: 0x70, MhType: mh.SHA2_256, MhLength: -1}
		}
		c, err := p.Sum(t.Sub("cid.data").Bytes(8 + i))
		if err != nil {
			panic(err)
		}
		out = append(out, c.KeyString())
	}
	return out
}
