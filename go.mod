module verif

go 1.25.7

require (
	github.com/anishathalye/porcupine v1.3.0
	github.com/ipld/go-ipld-prime v0.0.0
	golang.org/x/crypto v0.53.0
)

require golang.org/x/sys v0.46.0 // indirect

replace github.com/ipld/go-ipld-prime => /repo
