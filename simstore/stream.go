// Package simstore is the simulated stream layer between a LinkSystem and its
// block store: it wraps the repository's own seams
// (linking.BlockReadOpener / BlockWriteOpener / BlockWriteCommitter) so that
// the real store, codecs, hashers and link system run unmodified while the
// bytes between them are chunked, corrupted, cut, extended, substituted or
// failed as the fault plan says. Every call yields to the scheduler.
package simstore

import (
	"errors"
	"fmt"
	"io"

	"github.com/ipld/go-ipld-prime/datamodel"
	"github.com/ipld/go-ipld-prime/linking"

	"verif/sim"
)

var ErrInjectedOpen = errors.New("simstore: injected open error")
var ErrInjectedRead = errors.New("simstore: injected read error")
var ErrInjectedWrite = errors.New("simstore: injected write error")
var ErrInjectedCommit = errors.New("simstore: injected commit error")

// ReadFault is the requested fault for one opened block.
type ReadFault struct {
	Kind      string // "", "flip", "trunc", "extend", "subst", "readerr", "openerr", "skip"
	Pos       int    // offset (flip, trunc length, readerr offset)
	Bit       int
	Ext       []byte // extend: appended bytes
	Subst     []byte // subst: replacement content
	ErrSticky bool   // readerr: error repeats on later reads
	ErrData   bool   // readerr: the failing call also carries the bytes before the offset
	// second fault (multi-fault sequences): a read error on top of a corruption
	Err2At int // -1 none
	// benign delivery parameters
	Chunk   int  // 0: as asked; >0: at most Chunk bytes per Read
	Random  bool // chunk sizes from the tape (1..Chunk)
	EOFWith bool // deliver the final bytes together with io.EOF
	Stall   int  // extra yields before the first byte
	// EmptyAt > 0: the one Read that starts at this offset returns (0, nil) -- io.Reader's legal
	// "nothing happened"; a consumer must ask again, not take it for the end of the stream
	EmptyAt int
	SkipErr error
	Tag     int // owner (task id) that this plan was made for

	// Caps: optional interfaces the reader offers besides io.Reader and io.Closer, as real storage
	// readers do (bytes.Reader, *os.File): bit 0 io.Seeker, bit 1 io.WriterTo.
	Caps int
	// RewindSubst: content delivered after the consumer seeks back to the start (a store whose block
	// changed between two passes over it). Implies io.Seeker.
	RewindSubst []byte
}

// Resolved is the plan after conflicts are settled: the bytes a drain of the
// reader delivers and how the stream ends.
type Resolved struct {
	D       []byte
	ErrAt   int // -1: ends with EOF after D; else the stream fails once ErrAt bytes were delivered (D = D[:ErrAt])
	OpenErr error
}

// Resolve computes D and T from the stored bytes and the fault.
func Resolve(b []byte, f *ReadFault) Resolved {
	d := append([]byte(nil), b...)
	r := Resolved{ErrAt: -1}
	if f == nil {
		r.D = d
		return r
	}
	switch f.Kind {
	case "openerr":
		r.OpenErr = ErrInjectedOpen
	case "skip":
		r.OpenErr = f.SkipErr
	case "flip":
		if len(d) > 0 {
			p := f.Pos % len(d)
			d[p] ^= 1 << uint(f.Bit%8)
		}
	case "trunc":
		if len(d) > 0 {
			d = d[:f.Pos%len(d)]
		}
	case "extend":
		d = append(d, f.Ext...)
	case "subst":
		d = append([]byte(nil), f.Subst...)
	case "readerr":
		r.ErrAt = f.Pos % (len(d) + 1) // an error planned at the EOF position replaces the EOF
	}
	if f.Err2At >= 0 && r.ErrAt < 0 && r.OpenErr == nil {
		r.ErrAt = f.Err2At % (len(d) + 1)
	}
	if r.ErrAt >= 0 {
		d = d[:r.ErrAt]
	}
	r.D = d
	return r
}

// Reader delivers a resolved plan and logs what it actually returned.
type Reader struct {
	S          *sim.Sim
	T          *sim.Tape
	R          Resolved
	F          ReadFault
	off        int
	Delivered  []byte
	Ended      string // "", "eof", "err"
	Calls      int
	ReadSizes  []int // offsets at which each Read call started (the library's read trace)
	fired      bool
	Closed     bool
	Passes     [][]byte // what earlier passes delivered, when the consumer rewound the stream (Delivered: the current pass)
	WroteTo    bool     // the consumer used WriteTo
	emptyDone  bool
	EmptyReads int // (0, nil) answers given (ReadFault.EmptyAt)
}

// seek implements io.Seeker over the resolved stream. A rewind to the start begins a new pass.
func (r *Reader) seek(off int64, whence int) (int64, error) {
	r.S.Yield("stream.seek")
	abs := off
	switch whence {
	case io.SeekCurrent:
		abs += int64(r.off)
	case io.SeekEnd:
		abs += int64(len(r.R.D))
	}
	if abs < 0 {
		return 0, fmt.Errorf("simstore: negative position")
	}
	if abs > int64(len(r.R.D)) {
		abs = int64(len(r.R.D))
	}
	if abs == 0 && (r.off > 0 || r.Ended != "") {
		r.Passes = append(r.Passes, r.Delivered)
		r.Delivered = nil
		if r.F.RewindSubst != nil {
			r.R.D, r.R.ErrAt = r.F.RewindSubst, -1
		}
	}
	r.off = int(abs)
	if r.Ended != "err" || !r.F.ErrSticky {
		r.Ended = ""
	}
	return abs, nil
}

// writeTo implements io.WriterTo with the same stream semantics as Read.
func (r *Reader) writeTo(dst io.Writer) (int64, error) {
	r.WroteTo = true
	var total int64
	buf := make([]byte, 32*1024)
	for {
		n, err := r.Read(buf)
		if n > 0 {
			m, werr := dst.Write(buf[:n])
			total += int64(m)
			if werr != nil {
				return total, werr
			}
		}
		if err == io.EOF {
			return total, nil
		}
		if err != nil {
			return total, err
		}
	}
}

type seekReader struct{ *Reader }

func (s seekReader) Seek(off int64, whence int) (int64, error) { return s.seek(off, whence) }

type wtReader struct{ *Reader }

func (w wtReader) WriteTo(dst io.Writer) (int64, error) { return w.writeTo(dst) }

type seekWtReader struct{ *Reader }

func (s seekWtReader) Seek(off int64, whence int) (int64, error) { return s.seek(off, whence) }
func (s seekWtReader) WriteTo(dst io.Writer) (int64, error)      { return s.writeTo(dst) }

// withCaps returns the reader behind the optional interfaces its plan asks for.
func (r *Reader) withCaps() io.Reader {
	caps := r.F.Caps
	if r.F.RewindSubst != nil {
		caps |= 1
	}
	switch caps & 3 {
	case 1:
		return seekReader{r}
	case 2:
		return wtReader{r}
	case 3:
		return seekWtReader{r}
	}
	return r
}

func (r *Reader) Read(p []byte) (int, error) {
	r.S.Yield("stream.read")
	r.Calls++
	r.ReadSizes = append(r.ReadSizes, r.off)
	if r.Calls == 1 {
		for i := 0; i < r.F.Stall; i++ {
			r.S.Yield("stream.stall")
		}
	}
	if len(p) == 0 {
		return 0, nil
	}
	if r.Ended == "err" {
		if r.F.ErrSticky {
			return 0, ErrInjectedRead
		}
		// one-shot error: the stream is over afterwards
		return 0, io.EOF
	}
	if r.Ended == "eof" {
		return 0, io.EOF
	}
	if r.F.EmptyAt > 0 && r.off == r.F.EmptyAt && !r.emptyDone {
		r.emptyDone = true
		r.EmptyReads++
		return 0, nil
	}
	rem := len(r.R.D) - r.off
	n := len(p)
	if r.F.Chunk > 0 && n > r.F.Chunk {
		n = r.F.Chunk
	}
	if r.F.Random && n > 1 {
		n = 1 + r.T.Choice(n, "chunk")
	}
	if n > rem {
		n = rem
	}
	copy(p, r.R.D[r.off:r.off+n])
	r.Delivered = append(r.Delivered, p[:n]...)
	r.off += n
	last := r.off == len(r.R.D)
	if last && r.R.ErrAt >= 0 {
		if n > 0 && !r.F.ErrData {
			return n, nil // the error arrives with the next call
		}
		r.Ended = "err"
		return n, ErrInjectedRead
	}
	if last {
		if n > 0 && !r.F.EOFWith {
			return n, nil
		}
		r.Ended = "eof"
		return n, io.EOF
	}
	return n, nil
}

func (r *Reader) Close() error { r.Closed = true; return nil }

// Drained reports whether the consumer saw the end of the stream.
func (r *Reader) Drained() bool { return r.Ended != "" }

// WriteFault is the requested fault for one opened write stream.
type WriteFault struct {
	Kind    string        // "", "writeerr", "commiterr", "openerr"
	AtWrite int           // writeerr: index of the failing Write
	Partial int           // writeerr: bytes of that Write accepted before failing (taken modulo len)
	OneShot bool          // writeerr: only that one Write fails (a transient error); later Writes succeed
	Sync    bool          // the writer also offers Sync() error, as a file-backed storage writer does (it succeeds)
	After   func(idx int) // called after the Write with that index went through (e.g. to cancel a context there)
}

// Writer wraps the store's writer.
type Writer struct {
	S        *sim.Sim
	Inner    io.Writer
	F        WriteFault
	Calls    int
	Bytes    int
	Failed   bool
	Sizes    []int
	AfterErr int // Write calls made after a failed Write (the encoder ignored the error)
	Synced   int // Sync calls
}

func (w *Writer) Write(p []byte) (int, error) {
	w.S.Yield("stream.write")
	idx := w.Calls
	w.Calls++
	w.Sizes = append(w.Sizes, len(p))
	if w.Failed && !w.F.OneShot {
		w.AfterErr++
		return 0, ErrInjectedWrite
	}
	if w.Failed {
		w.AfterErr++
	}
	if w.F.Kind == "writeerr" && idx == w.F.AtWrite {
		k := 0
		if len(p) > 0 {
			k = w.F.Partial % len(p)
		}
		if k > 0 {
			w.Inner.Write(p[:k])
			w.Bytes += k
		}
		w.Failed = true
		return k, ErrInjectedWrite
	}
	n, err := w.Inner.Write(p)
	w.Bytes += n
	if w.F.After != nil {
		w.F.After(idx)
	}
	return n, err
}

// Seam is one instrumented link-system storage seam.
type Seam struct {
	S *sim.Sim
	T *sim.Tape
	// NextRead / NextWrite are consulted at every open; nil means fault-free.
	NextRead    func(lnk datamodel.Link) *ReadFault
	NextWrite   func() *WriteFault
	Readers     []*Reader
	Writers     []*Writer
	OnOpen      func(lc linking.LinkContext, l datamodel.Link) // observer of every read-open (before any fault)
	Commits     []string                                       // binary form of every link the inner committer was invoked with
	CommitTries int
	Opens       []string
}

// Wrap instruments lsys in place.
func (sm *Seam) Wrap(lsys *linking.LinkSystem) {
	innerR := lsys.StorageReadOpener
	innerW := lsys.StorageWriteOpener
	if innerR != nil {
		lsys.StorageReadOpener = func(lc linking.LinkContext, l datamodel.Link) (io.Reader, error) {
			sm.S.Yield("seam.openread")
			sm.Opens = append(sm.Opens, l.Binary())
			if sm.OnOpen != nil {
				sm.OnOpen(lc, l)
			}
			var f *ReadFault
			if sm.NextRead != nil {
				f = sm.NextRead(l)
			}
			if f != nil && (f.Kind == "openerr" || f.Kind == "skip") {
				res := Resolve(nil, f)
				sm.Readers = append(sm.Readers, &Reader{S: sm.S, T: sm.T, R: res, F: *f, Ended: "openerr"})
				return nil, res.OpenErr
			}
			r, err := innerR(lc, l)
			if err != nil {
				return nil, err
			}
			b, err := io.ReadAll(r)
			if c, ok := r.(io.Closer); ok {
				c.Close()
			}
			if err != nil {
				return nil, fmt.Errorf("simstore: backend read failed: %w", err)
			}
			ff := ReadFault{Err2At: -1}
			if f != nil {
				ff = *f
			}
			rd := &Reader{S: sm.S, T: sm.T, R: Resolve(b, &ff), F: ff}
			sm.Readers = append(sm.Readers, rd)
			sm.S.Yield("seam.opened")
			return rd.withCaps(), nil
		}
	}
	if innerW != nil {
		lsys.StorageWriteOpener = func(lc linking.LinkContext) (io.Writer, linking.BlockWriteCommitter, error) {
			sm.S.Yield("seam.openwrite")
			var f WriteFault
			if sm.NextWrite != nil {
				if p := sm.NextWrite(); p != nil {
					f = *p
				}
			}
			if f.Kind == "openerr" {
				return nil, nil, ErrInjectedOpen
			}
			w, commit, err := innerW(lc)
			if err != nil {
				return nil, nil, err
			}
			wr := &Writer{S: sm.S, Inner: w, F: f}
			sm.Writers = append(sm.Writers, wr)
			var out io.Writer = wr
			if f.Sync {
				out = syncWriter{wr}
			}
			return out, func(l datamodel.Link) error {
				sm.S.Yield("seam.commit")
				sm.CommitTries++
				if f.Kind == "commiterr" {
					return ErrInjectedCommit
				}
				sm.Commits = append(sm.Commits, l.Binary())
				err := commit(l)
				sm.S.Yield("seam.committed")
				return err
			}, nil
		}
	}
}

// syncWriter is the writer plus a Sync method (what *os.File offers).
type syncWriter struct{ *Writer }

func (s syncWriter) Sync() error {
	s.Synced++
	s.S.Yield("stream.sync")
	return nil
}
