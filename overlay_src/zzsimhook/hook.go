// Package zzsimhook is injected into the go-ipld-prime module at build time
// by `go build -overlay` (it does not exist in the repository). Rewritten
// copies of library files call it instead of `os` / `crypto/rand`, and
// function-entry yields call Y. With nothing installed every function passes
// straight through to the real implementation.
package zzsimhook

import (
	"context"
	crand "crypto/rand"
	"errors"
	"io"
	"io/fs"
	"os"
	"runtime"
	"sync"
)

func runtimeGosched() { runtime.Gosched() }

// ---- scheduling hook ----

var Yield func(site string)

func Y(site string) {
	if Yield != nil {
		Yield(site)
	}
}

// AfterFuncHook, when set, replaces context.AfterFunc in the rewritten library files: the
// simulator runs the callback itself, at a yield point it chooses after the cancellation, instead
// of on a goroutine it does not schedule.
var AfterFuncHook func(ctx context.Context, f func()) (stop func() bool)

func AfterFunc(ctx context.Context, f func()) (stop func() bool) {
	if h := AfterFuncHook; h != nil {
		return h(ctx, f)
	}
	return context.AfterFunc(ctx, f)
}

// ---- cooperative channel operations (blocking receives and sends outside select statements) ----

// Recv1 is `<-ch`: under the scheduler the task polls and yields until a value (or the close) is there.
func Recv1[T any](ch <-chan T) T {
	v, _ := Recv2(ch)
	return v
}

// Recv2 is `v, ok := <-ch`.
func Recv2[T any](ch <-chan T) (T, bool) {
	if YieldBlocked == nil || ch == nil {
		v, ok := <-ch
		return v, ok
	}
	for {
		select {
		case v, ok := <-ch:
			return v, ok
		default:
			waitFor("chan.recv")
		}
	}
}

// Send is `ch <- v`.
func Send[T any](ch chan<- T, v T) {
	if YieldBlocked == nil || ch == nil {
		ch <- v
		return
	}
	for {
		select {
		case ch <- v:
			return
		default:
			waitFor("chan.send")
		}
	}
}

// ---- filesystem hook ----

// FS is what a simulated disk implements.
type FS interface {
	OpenFile(name string, flag int, perm os.FileMode) (*File, error)
	Rename(oldpath, newpath string) error
	Mkdir(name string, perm os.FileMode) error
	MkdirAll(name string, perm os.FileMode) error
	Remove(name string) error
	RemoveAll(name string) error
	Stat(name string) (os.FileInfo, error)
	Lstat(name string) (os.FileInfo, error)
	ReadFile(name string) ([]byte, error)
	WriteFile(name string, data []byte, perm os.FileMode) error
	ReadDir(name string) ([]os.DirEntry, error)
	Link(oldname, newname string) error
	Symlink(oldname, newname string) error
	Truncate(name string, size int64) error
	Chmod(name string, mode os.FileMode) error
	RandRead(b []byte) (int, error)
}

// FileImpl is the simulated side of an open file.
type FileImpl interface {
	Read(p []byte) (int, error)
	Write(p []byte) (int, error)
	Close() error
	Seek(offset int64, whence int) (int64, error)
	Sync() error
	Stat() (os.FileInfo, error)
	Truncate(size int64) error
	Name() string
}

var TheFS FS

// File stands in for os.File in rewritten code.
type File struct {
	Impl FileImpl
}

func (f *File) Read(p []byte) (int, error) { return f.Impl.Read(p) }

// ReadAt / WriteAt: positional I/O, where the implementation offers it (the real file and the
// simulated one do).
func (f *File) ReadAt(p []byte, off int64) (int, error) {
	if ra, ok := f.Impl.(io.ReaderAt); ok {
		return ra.ReadAt(p, off)
	}
	return 0, errors.New("zzsimhook: file implementation without ReadAt")
}
func (f *File) WriteAt(p []byte, off int64) (int, error) {
	if wa, ok := f.Impl.(io.WriterAt); ok {
		return wa.WriteAt(p, off)
	}
	return 0, errors.New("zzsimhook: file implementation without WriteAt")
}
func (f *File) Write(p []byte) (int, error) { return f.Impl.Write(p) }
func (f *File) WriteString(s string) (int, error) {
	return f.Impl.Write([]byte(s))
}
func (f *File) Close() error                                 { return f.Impl.Close() }
func (f *File) Seek(offset int64, whence int) (int64, error) { return f.Impl.Seek(offset, whence) }
func (f *File) Sync() error                                  { return f.Impl.Sync() }
func (f *File) Stat() (os.FileInfo, error)                   { return f.Impl.Stat() }
func (f *File) Truncate(size int64) error                    { return f.Impl.Truncate(size) }
func (f *File) Name() string                                 { return f.Impl.Name() }

type realFile struct{ *os.File }

func wrapReal(f *os.File, err error) (*File, error) {
	if err != nil {
		return nil, err
	}
	return &File{Impl: realFile{f}}, nil
}

func OpenFile(name string, flag int, perm os.FileMode) (*File, error) {
	if TheFS != nil {
		return TheFS.OpenFile(name, flag, perm)
	}
	return wrapReal(os.OpenFile(name, flag, perm))
}
func Open(name string) (*File, error) { return OpenFile(name, os.O_RDONLY, 0) }
func Create(name string) (*File, error) {
	return OpenFile(name, os.O_RDWR|os.O_CREATE|os.O_TRUNC, 0666)
}
func Rename(oldpath, newpath string) error {
	if TheFS != nil {
		return TheFS.Rename(oldpath, newpath)
	}
	return os.Rename(oldpath, newpath)
}
func Mkdir(name string, perm os.FileMode) error {
	if TheFS != nil {
		return TheFS.Mkdir(name, perm)
	}
	return os.Mkdir(name, perm)
}
func MkdirAll(name string, perm os.FileMode) error {
	if TheFS != nil {
		return TheFS.MkdirAll(name, perm)
	}
	return os.MkdirAll(name, perm)
}
func Remove(name string) error {
	if TheFS != nil {
		return TheFS.Remove(name)
	}
	return os.Remove(name)
}
func RemoveAll(name string) error {
	if TheFS != nil {
		return TheFS.RemoveAll(name)
	}
	return os.RemoveAll(name)
}
func Stat(name string) (os.FileInfo, error) {
	if TheFS != nil {
		return TheFS.Stat(name)
	}
	return os.Stat(name)
}
func Lstat(name string) (os.FileInfo, error) {
	if TheFS != nil {
		return TheFS.Lstat(name)
	}
	return os.Lstat(name)
}
func ReadFile(name string) ([]byte, error) {
	if TheFS != nil {
		return TheFS.ReadFile(name)
	}
	return os.ReadFile(name)
}
func WriteFile(name string, data []byte, perm os.FileMode) error {
	if TheFS != nil {
		return TheFS.WriteFile(name, data, perm)
	}
	return os.WriteFile(name, data, perm)
}
func ReadDir(name string) ([]os.DirEntry, error) {
	if TheFS != nil {
		return TheFS.ReadDir(name)
	}
	return os.ReadDir(name)
}
func Link(oldname, newname string) error {
	if TheFS != nil {
		return TheFS.Link(oldname, newname)
	}
	return os.Link(oldname, newname)
}
func Symlink(oldname, newname string) error {
	if TheFS != nil {
		return TheFS.Symlink(oldname, newname)
	}
	return os.Symlink(oldname, newname)
}
func Truncate(name string, size int64) error {
	if TheFS != nil {
		return TheFS.Truncate(name, size)
	}
	return os.Truncate(name, size)
}
func Chmod(name string, mode os.FileMode) error {
	if TheFS != nil {
		return TheFS.Chmod(name, mode)
	}
	return os.Chmod(name, mode)
}

// RandRead replaces crypto/rand.Read.
func RandRead(b []byte) (int, error) {
	if TheFS != nil {
		return TheFS.RandRead(b)
	}
	return crand.Read(b)
}

var _ fs.FileInfo

// CreateTemp mirrors os.CreateTemp on top of OpenFile and RandRead.
func CreateTemp(dir, pattern string) (*File, error) {
	if dir == "" {
		dir = os.TempDir()
	}
	prefix, suffix := pattern, ""
	for i := len(pattern) - 1; i >= 0; i-- {
		if pattern[i] == '*' {
			prefix, suffix = pattern[:i], pattern[i+1:]
			break
		}
	}
	const hexd = "0123456789abcdef"
	for try := 0; try < 10000; try++ {
		var b [8]byte
		RandRead(b[:])
		name := make([]byte, 0, 16)
		for _, c := range b {
			name = append(name, hexd[c>>4], hexd[c&15])
		}
		f, err := OpenFile(dir+string(os.PathSeparator)+prefix+string(name)+suffix, os.O_RDWR|os.O_CREATE|os.O_EXCL, 0600)
		if os.IsExist(err) {
			continue
		}
		return f, err
	}
	return nil, os.ErrExist
}

// ---- cooperative locks ----
//
// Instrumented library files use these instead of sync.Mutex / RWMutex / Once.
// Under the simulator exactly one task runs at a time and tasks are switched at
// yield points, possibly while a lock is held; a task that really blocked on a
// lock would stop the whole simulation. These types therefore wait by yielding:
// they wrap the real primitive (so the race detector still sees the
// happens-before edges a lock gives) and use TryLock in a loop.

// YieldBlocked, when set, forces a switch to another task (the caller cannot go on).
var YieldBlocked func(site string)

func waitFor(site string) {
	if YieldBlocked != nil {
		YieldBlocked(site)
		return
	}
	if Yield != nil {
		Yield(site)
		return
	}
	// No scheduler: a lock that is not free here is held by nobody who could release it while we
	// spin on one thread of control (set-up, reference and recovery phases run alone). Give real
	// goroutines a moment, then say so instead of hanging.
	spins++
	if spins > 200000 {
		spins = 0
		panic("zzsimhook: " + site + ": the lock is held and nobody is running who could release it (leaked lock)")
	}
	runtimeGosched()
}

var spins int

type Mutex struct{ mu sync.Mutex }

func (m *Mutex) Lock() {
	Y("mutex.lock")
	for !m.mu.TryLock() {
		waitFor("mutex.wait")
	}
}
func (m *Mutex) Unlock() {
	m.mu.Unlock()
	Y("mutex.unlocked") // releasing a lock is where another caller gets in
}
func (m *Mutex) TryLock() bool { return m.mu.TryLock() }

type RWMutex struct{ mu sync.RWMutex }

func (m *RWMutex) Lock() {
	Y("rwmutex.lock")
	for !m.mu.TryLock() {
		waitFor("rwmutex.wait")
	}
}
func (m *RWMutex) Unlock() {
	m.mu.Unlock()
	Y("rwmutex.unlocked")
}
func (m *RWMutex) RLock() {
	for !m.mu.TryRLock() {
		waitFor("rwmutex.rwait")
	}
}
func (m *RWMutex) RUnlock()             { m.mu.RUnlock() }
func (m *RWMutex) TryLock() bool        { return m.mu.TryLock() }
func (m *RWMutex) TryRLock() bool       { return m.mu.TryRLock() }
func (m *RWMutex) RLocker() sync.Locker { return (*rlocker)(m) }

type rlocker RWMutex

func (r *rlocker) Lock()   { (*RWMutex)(r).RLock() }
func (r *rlocker) Unlock() { (*RWMutex)(r).RUnlock() }

type Once struct {
	m    Mutex
	done bool
}

func (o *Once) Do(f func()) {
	o.m.Lock()
	defer o.m.Unlock()
	if !o.done {
		defer func() { o.done = true }()
		f()
	}
}

// ---- deterministic object pool ----

// Pool stands in for sync.Pool in instrumented library packages. The real
// pool keeps per-P caches that the garbage collector empties: whether a Get
// re-uses an object depends on goroutine placement and GC timing, so a run
// that went wrong through pool misuse (an object released twice, used after
// release) would not replay. This one is a plain LIFO stack: a Get after a Put
// always re-uses. A real mutex guards it (never held across a yield), which
// also gives the race detector the Put-before-Get edge the real pool provides.
// ResetPools empties every pool; the simulator calls it when a run starts, so
// that a run does not depend on the runs its process executed before.
type Pool struct {
	New func() any

	mu    sync.Mutex
	items []any
	known bool
}

var (
	poolsMu sync.Mutex
	pools   []*Pool
)

func (p *Pool) register() {
	if !p.known {
		p.known = true
		poolsMu.Lock()
		pools = append(pools, p)
		poolsMu.Unlock()
	}
}

func (p *Pool) Get() any {
	p.mu.Lock()
	p.register()
	if n := len(p.items); n > 0 {
		x := p.items[n-1]
		p.items[n-1] = nil
		p.items = p.items[:n-1]
		p.mu.Unlock()
		return x
	}
	p.mu.Unlock()
	if p.New != nil {
		return p.New()
	}
	return nil
}

func (p *Pool) Put(x any) {
	if x == nil {
		return
	}
	p.mu.Lock()
	p.register()
	p.items = append(p.items, x)
	p.mu.Unlock()
}

// ResetPools empties every Pool that was ever used.
func ResetPools() {
	poolsMu.Lock()
	ps := append([]*Pool(nil), pools...)
	poolsMu.Unlock()
	for _, p := range ps {
		p.mu.Lock()
		p.items = nil
		p.mu.Unlock()
	}
}
