// Command simcheck is the driver of every check: see driver.Main.
package main

import (
	"os"

	"verif/driver"
	"verif/scen/bindhist"
	"verif/scen/fscrash"
	"verif/scen/immut"
	"verif/scen/kvstore"
	"verif/scen/linksys"
	"verif/scen/shared"
	"verif/scen/walkctl"
	"verif/scen/xform"
)

func main() {
	if len(os.Args) > 1 && os.Args[1] == "--c20child" {
		os.Exit(shared.ChildMain(os.Args[2:]))
	}
	if len(os.Args) > 1 && os.Args[1] == "--c19child" {
		os.Exit(bindhist.ChildMain(os.Args[2:]))
	}
	driver.Register(shared.S{})
	driver.Register(bindhist.S{})
	driver.Register(fscrash.S{})
	driver.Register(immut.S{})
	driver.Register(kvstore.S{})
	driver.Register(linksys.S06{})
	driver.Register(linksys.S05{})
	driver.Register(walkctl.S{})
	driver.Register(xform.S{})
	os.Exit(driver.Main(os.Args[1:]))
}
