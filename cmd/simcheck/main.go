// Command simcheck is the driver of every check: see driver.Main.
package main

import (
	"os"

	"verif/driver"
	"verif/scen/fscrash"
)

func main() {
	driver.Register(fscrash.S{})
	os.Exit(driver.Main(os.Args[1:]))
}
