// Command simcheck is the driver of every check: see driver.Main.
package main

import (
	"os"

	"verif/driver"
	"verif/scen/fscrash"
	"verif/scen/kvstore"
)

func main() {
	driver.Register(fscrash.S{})
	driver.Register(kvstore.S{})
	os.Exit(driver.Main(os.Args[1:]))
}
