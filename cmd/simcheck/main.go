// Command simcheck is the driver of every check: see driver.Main.
package main

import (
	"os"

	"verif/driver"
	"verif/scen/fscrash"
	"verif/scen/kvstore"
	"verif/scen/linksys"
	"verif/scen/walkctl"
)

func main() {
	driver.Register(fscrash.S{})
	driver.Register(kvstore.S{})
	driver.Register(linksys.S06{})
	driver.Register(linksys.S05{})
	driver.Register(walkctl.S{})
	os.Exit(driver.Main(os.Args[1:]))
}
