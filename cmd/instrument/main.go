// Command instrument generates a `go build -overlay` description from the
// current working tree of the repository under test:
//
//   - the package zzsimhook is added to the go-ipld-prime module;
//   - with -fs, storage/fsstore/*.go is copied with every I/O selector on the
//     os package (and crypto/rand.Read) redirected to zzsimhook;
//   - with -yield, a zzsimhook.Y("<pkg>.<func>") call is inserted at the entry
//     of every function of the listed packages.
//
// All edits are textual insertions on the original lines, so line numbers in
// stack traces and race reports stay those of the repository's files.
// Exit status 2 means the harness must be extended (never "pass").
package main

import (
	"encoding/json"
	"flag"
	"fmt"
	"go/ast"
	"go/parser"
	"go/token"
	"os"
	"path/filepath"
	"sort"
	"strings"
)

const hookImport = `import zzsimhook "github.com/ipld/go-ipld-prime/zzsimhook"`

var osIO = map[string]bool{
	"OpenFile": true, "Open": true, "Create": true, "Rename": true, "Mkdir": true, "MkdirAll": true,
	"Remove": true, "RemoveAll": true, "Stat": true, "Lstat": true, "ReadFile": true, "WriteFile": true,
	"ReadDir": true, "Link": true, "Symlink": true, "Truncate": true, "Chmod": true, "File": true,
	"CreateTemp": true,
}
var osPure = map[string]bool{
	"IsNotExist": true, "IsExist": true, "IsPermission": true, "IsTimeout": true,
	"ErrNotExist": true, "ErrExist": true, "ErrPermission": true, "ErrInvalid": true, "ErrClosed": true,
	"O_RDONLY": true, "O_WRONLY": true, "O_RDWR": true, "O_APPEND": true, "O_CREATE": true, "O_EXCL": true, "O_SYNC": true, "O_TRUNC": true,
	"FileMode": true, "FileInfo": true, "DirEntry": true, "ModePerm": true, "ModeDir": true, "ModeType": true,
	"PathSeparator": true, "PathError": true, "LinkError": true, "SyscallError": true,
	"Getpid": true, "Getenv": true, "TempDir": true,
}

type edit struct {
	off  int
	del  int
	text string
}

func apply(src []byte, edits []edit) []byte {
	sort.SliceStable(edits, func(i, j int) bool { return edits[i].off < edits[j].off })
	var out []byte
	pos := 0
	for _, e := range edits {
		out = append(out, src[pos:e.off]...)
		out = append(out, e.text...)
		pos = e.off + e.del
	}
	return append(out, src[pos:]...)
}

func die(format string, a ...interface{}) {
	fmt.Fprintf(os.Stderr, "instrument: "+format+"\n", a...)
	os.Exit(2)
}

func goFiles(dir string) []string {
	ents, err := os.ReadDir(dir)
	if err != nil {
		return nil
	}
	var out []string
	for _, e := range ents {
		n := e.Name()
		if e.IsDir() || !strings.HasSuffix(n, ".go") || strings.HasSuffix(n, "_test.go") {
			continue
		}
		out = append(out, filepath.Join(dir, n))
	}
	sort.Strings(out)
	return out
}

func importName(f *ast.File, path, def string) string {
	for _, im := range f.Imports {
		if strings.Trim(im.Path.Value, `"`) == path {
			if im.Name != nil {
				return im.Name.Name
			}
			return def
		}
	}
	return ""
}

func main() {
	repo := flag.String("repo", "/repo", "repository working tree")
	out := flag.String("out", ".build/overlay", "output directory")
	hooksrc := flag.String("hooksrc", "overlay_src/zzsimhook", "zzsimhook source dir")
	doFS := flag.Bool("fs", false, "rewrite storage/fsstore os calls")
	yield := flag.String("yield", "", "comma-separated package dirs (relative to repo) to receive function-entry yields")
	coop := flag.String("coop", "", "comma-separated package dirs whose sync.Mutex / RWMutex / Once become cooperative (no yields inserted)")
	detmaps := flag.String("detmaps", "", "GOROOT whose runtime is overlaid so that Go map iteration order and hashing are the same in every process (replay determinism of the C20 child)")
	flag.Parse()

	absRepo, _ := filepath.Abs(*repo)
	absOut, _ := filepath.Abs(*out)
	absHook, _ := filepath.Abs(*hooksrc)
	os.RemoveAll(absOut)
	if err := os.MkdirAll(absOut, 0777); err != nil {
		die("%v", err)
	}
	replace := map[string]string{}
	for _, f := range goFiles(absHook) {
		replace[filepath.Join(absRepo, "zzsimhook", filepath.Base(f))] = f
	}
	gen := 0
	emit := func(orig string, content []byte) {
		gen++
		rel, _ := filepath.Rel(absRepo, orig)
		dst := filepath.Join(absOut, fmt.Sprintf("%04d_", gen)+strings.ReplaceAll(rel, string(os.PathSeparator), "__"))
		if err := os.WriteFile(dst, content, 0666); err != nil {
			die("%v", err)
		}
		replace[orig] = dst
	}

	yieldDirs := map[string]bool{}
	for _, d := range strings.Split(*yield, ",") {
		if d = strings.TrimSpace(d); d != "" {
			yieldDirs[filepath.Clean(d)] = true
		}
	}
	coopDirs := map[string]bool{}
	for _, d := range strings.Split(*coop, ",") {
		if d = strings.TrimSpace(d); d != "" {
			coopDirs[filepath.Clean(d)] = true
		}
	}
	dirs := map[string]bool{}
	for d := range yieldDirs {
		dirs[d] = true
	}
	for d := range coopDirs {
		if _, err := os.Stat(filepath.Join(absRepo, d)); err == nil {
			dirs[d] = true
		}
	}
	if *doFS {
		dirs["storage/fsstore"] = true
	}
	var dirList []string
	for d := range dirs {
		dirList = append(dirList, d)
	}
	sort.Strings(dirList)

	nY, nFS, nSync := 0, 0, 0
	for _, d := range dirList {
		files := goFiles(filepath.Join(absRepo, d))
		if len(files) == 0 {
			if coopDirs[d] && !yieldDirs[d] {
				continue
			}
			die("no go files in %s (package moved? extend the harness)", d)
		}
		for _, path := range files {
			src, err := os.ReadFile(path)
			if err != nil {
				die("%v", err)
			}
			fset := token.NewFileSet()
			f, err := parser.ParseFile(fset, path, src, parser.ParseComments)
			if err != nil {
				die("parse %s: %v", path, err)
			}
			var edits []edit
			off := func(p token.Pos) int { return fset.Position(p).Offset }

			if *doFS && d == "storage/fsstore" {
				osN := importName(f, "os", "os")
				randN := importName(f, "crypto/rand", "rand")
				iouN := importName(f, "io/ioutil", "ioutil")
				mrandN := importName(f, "math/rand", "rand")
				if mrandN != "" {
					die("%s imports math/rand: extend the harness", path)
				}
				usedOS, usedRand := false, false
				ast.Inspect(f, func(n ast.Node) bool {
					se, ok := n.(*ast.SelectorExpr)
					if !ok {
						return true
					}
					id, ok := se.X.(*ast.Ident)
					if !ok || id.Obj != nil {
						return true
					}
					switch {
					case osN != "" && id.Name == osN:
						if osIO[se.Sel.Name] {
							edits = append(edits, edit{off(id.Pos()), len(id.Name), "zzsimhook"})
							nFS++
						} else if osPure[se.Sel.Name] {
							usedOS = true
						} else {
							die("%s: unknown os.%s in fsstore: extend the harness (simos)", path, se.Sel.Name)
						}
					case randN != "" && id.Name == randN:
						if se.Sel.Name == "Read" {
							edits = append(edits, edit{off(id.Pos()), len(id.Name) + 1 + len("Read"), "zzsimhook.RandRead"})
							nFS++
						} else if se.Sel.Name == "Reader" {
							die("%s: crypto/rand.Reader used directly: extend the harness", path)
						} else {
							usedRand = true
						}
					case iouN != "" && id.Name == iouN:
						switch se.Sel.Name {
						case "ReadFile", "WriteFile":
							edits = append(edits, edit{off(id.Pos()), len(id.Name), "zzsimhook"})
							nFS++
						case "ReadAll", "Discard", "NopCloser":
						default:
							die("%s: unknown ioutil.%s in fsstore: extend the harness", path, se.Sel.Name)
						}
					}
					return true
				})
				tail := "\n"
				if osN != "" && osN != "_" && !usedOS {
					tail += "var _ = " + osN + ".ErrNotExist\n"
				}
				if randN != "" && randN != "_" && !usedRand {
					tail += "var _ = " + randN + ".Reader\n"
				}
				edits = append(edits, edit{len(src), 0, tail})
			}
			if yieldDirs[d] || coopDirs[d] || (*doFS && d == "storage/fsstore") {
				// blocking primitives become cooperative ones (see zzsimhook: a task that really blocked
				// on a lock held by a parked task would stop the simulation)
				if syncN := importName(f, "sync", "sync"); syncN != "" && syncN != "_" {
					usedSync := false
					ast.Inspect(f, func(n ast.Node) bool {
						se, ok := n.(*ast.SelectorExpr)
						if !ok {
							return true
						}
						id, ok := se.X.(*ast.Ident)
						if !ok || id.Obj != nil || id.Name != syncN {
							return true
						}
						switch se.Sel.Name {
						case "Mutex", "RWMutex", "Once", "Pool":
							edits = append(edits, edit{off(id.Pos()), len(id.Name), "zzsimhook"})
							nSync++
						case "Cond", "NewCond", "WaitGroup":
							if yieldDirs[d] {
								die("%s uses sync.%s: the simulator has no cooperative version yet (extend zzsimhook)", path, se.Sel.Name)
							}
							usedSync = true
						default:
							usedSync = true
						}
						return true
					})
					if !usedSync {
						edits = append(edits, edit{len(src), 0, "\nvar _ " + syncN + ".Locker\n"})
					}
				}
			}
			if yieldDirs[d] || coopDirs[d] || (*doFS && d == "storage/fsstore") {
				// Blocking channel operations outside select statements become cooperative ones: a task that
				// really blocked on a channel only a parked task can serve would stop the simulation.
				inSelect := map[ast.Node]bool{}
				ast.Inspect(f, func(n ast.Node) bool {
					if cc, ok := n.(*ast.CommClause); ok && cc.Comm != nil {
						ast.Inspect(cc.Comm, func(m ast.Node) bool {
							if m != nil {
								inSelect[m] = true
							}
							return true
						})
					}
					return true
				})
				twoValue := map[ast.Node]bool{}
				ast.Inspect(f, func(n ast.Node) bool {
					switch x := n.(type) {
					case *ast.AssignStmt:
						if len(x.Lhs) == 2 && len(x.Rhs) == 1 {
							if u, ok := x.Rhs[0].(*ast.UnaryExpr); ok && u.Op == token.ARROW {
								twoValue[u] = true
							}
						}
					case *ast.ValueSpec:
						if len(x.Names) == 2 && len(x.Values) == 1 {
							if u, ok := x.Values[0].(*ast.UnaryExpr); ok && u.Op == token.ARROW {
								twoValue[u] = true
							}
						}
					}
					return true
				})
				ast.Inspect(f, func(n ast.Node) bool {
					switch x := n.(type) {
					case *ast.UnaryExpr:
						if x.Op == token.ARROW && !inSelect[x] {
							fn := "zzsimhook.Recv1("
							if twoValue[x] {
								fn = "zzsimhook.Recv2("
							}
							edits = append(edits, edit{off(x.Pos()), 2, fn}, edit{off(x.X.End()), 0, ")"})
						}
					case *ast.SendStmt:
						if !inSelect[x] {
							edits = append(edits, edit{off(x.Chan.Pos()), 0, "zzsimhook.Send("},
								edit{off(x.Chan.End()), off(x.Value.Pos()) - off(x.Chan.End()), ", "},
								edit{off(x.Value.End()), 0, ")"})
						}
					}
					return true
				})
				// context.AfterFunc starts a goroutine the scheduler does not own: the simulator runs
				// the callback itself (zzsimhook.AfterFunc), at a yield point of its choosing
				if ctxN := importName(f, "context", "context"); ctxN != "" && ctxN != "_" {
					n0 := len(edits)
					ast.Inspect(f, func(n ast.Node) bool {
						se, ok := n.(*ast.SelectorExpr)
						if !ok {
							return true
						}
						id, ok := se.X.(*ast.Ident)
						if ok && id.Obj == nil && id.Name == ctxN && se.Sel.Name == "AfterFunc" {
							edits = append(edits, edit{off(id.Pos()), len(id.Name), "zzsimhook"})
						}
						return true
					})
					if len(edits) > n0 {
						edits = append(edits, edit{len(src), 0, "\nvar _ " + ctxN + ".Context\n"})
					}
				}
			}
			if yieldDirs[d] {
				pkg := f.Name.Name
				for _, decl := range f.Decls {
					fd, ok := decl.(*ast.FuncDecl)
					if !ok || fd.Body == nil {
						continue
					}
					name := fd.Name.Name
					if fd.Recv != nil && len(fd.Recv.List) > 0 {
						t := fd.Recv.List[0].Type
						if st, ok := t.(*ast.StarExpr); ok {
							t = st.X
						}
						if ix, ok := t.(*ast.IndexExpr); ok {
							t = ix.X
						}
						if id, ok := t.(*ast.Ident); ok {
							name = id.Name + "." + name
						}
					}
					// a yield on entry and one on return (deferred): the points just before a callee runs and
					// just after it has run -- before its caller goes on -- are both reachable by the scheduler
					edits = append(edits, edit{off(fd.Body.Lbrace) + 1, 0, `zzsimhook.Y("` + pkg + "." + name + `");defer zzsimhook.Y("` + pkg + "." + name + `.ret");`})
					nY += 2
				}
			}
			if len(edits) == 0 {
				continue
			}
			// import on the package clause line (keeps line numbers)
			edits = append(edits, edit{off(f.Name.End()), 0, "; " + hookImport})
			edits = append(edits, edit{len(src), 0, "\nvar _ = zzsimhook.Y\n"})
			emit(path, apply(src, edits))
		}
	}
	if *detmaps != "" {
		type rep struct{ file, old, new string }
		reps := []rep{
			{"src/runtime/alg.go", "hashkey[i] = uintptr(bootstrapRand())", "hashkey[i] = uintptr(0x9e3779b97f4a7c15) + uintptr(i)"},
			{"src/runtime/alg.go", "key[i] = bootstrapRand()", "key[i] = 0x9e3779b97f4a7c15 * uint64(i+1)"},
			{"src/internal/runtime/maps/table.go", "it.entryOffset = rand()", "it.entryOffset = 0"},
			{"src/internal/runtime/maps/table.go", "it.dirOffset = rand()", "it.dirOffset = 0"},
			{"src/internal/runtime/maps/map.go", "m.seed = uintptr(rand())", "m.seed = 0x5bd1e995"},
			// In race builds sync.Pool.Put drops its argument at random (1 in 4) to break the
			// happens-before edge that pool reuse creates; that made identical schedules report
			// different races. Every 4th Put is dropped instead: deterministic, and objects are
			// still re-used most of the time (so that faulty pool use -- an object released twice,
			// used after release -- still hands one object to two tasks).
			{"src/sync/pool.go", "if runtime_randn(4) == 0 {", "if poolDetDrop() {"},
			{"src/sync/pool.go", "func (p *Pool) Put(x any) {", "var poolDetCtr uint32\n\n// poolDetDrop replaces the race build's random 1-in-4 drop by every 4th Put (the tasks of a\n// simulated run are serialised, so the plain counter is safe; norace keeps it out of reports).\n//\n//go:norace\nfunc poolDetDrop() bool { poolDetCtr++; return poolDetCtr%4 == 0 }\n\nfunc (p *Pool) Put(x any) {"},
		}
		content := map[string][]byte{}
		okAll := true
		for _, r := range reps {
			path := filepath.Join(*detmaps, r.file)
			if content[path] == nil {
				b, err := os.ReadFile(path)
				if err != nil {
					okAll = false
					break
				}
				content[path] = b
			}
			if !strings.Contains(string(content[path]), r.old) {
				okAll = false
				break
			}
			content[path] = []byte(strings.ReplaceAll(string(content[path]), r.old, r.new))
		}
		if okAll {
			var paths []string
			for p := range content {
				paths = append(paths, p)
			}
			sort.Strings(paths)
			for _, p := range paths {
				gen++
				dst := filepath.Join(absOut, fmt.Sprintf("%04d_goroot_%s", gen, filepath.Base(p)))
				if err := os.WriteFile(dst, content[p], 0666); err != nil {
					die("%v", err)
				}
				replace[p] = dst
			}
			fmt.Println("instrument: deterministic map iteration/hashing overlay installed for", *detmaps)
		} else {
			fmt.Println("instrument: WARNING: this toolchain's runtime does not match the detmaps patterns; map iteration stays randomised (C20 replays may not be exact)")
		}
	}
	ov := map[string]interface{}{"Replace": replace}
	js, _ := json.MarshalIndent(ov, "", " ")
	if err := os.WriteFile(filepath.Join(absOut, "overlay.json"), js, 0666); err != nil {
		die("%v", err)
	}
	fmt.Printf("instrument: repo=%s files=%d fs_rewrites=%d yields=%d sync_rewrites=%d\n", absRepo, gen, nFS, nY, nSync)
}
