// Package immut decides C11: a finished node never changes, and reading it is
// repeatable.
//
// World: a pool of finished nodes, each with a birth snapshot (the harness's
// abstract value, known from construction where possible, otherwise taken by
// the first full read), live builders, and 2-4 holder tasks interleaved by
// the seeded scheduler between API calls, between the chunks of large-bytes
// readers and inside walk / transform callbacks. After EVERY step every node
// in the pool is re-read and compared with its snapshot; every large-bytes
// reader must deliver exactly the snapshot bytes from its own position
// whatever ran in between.
package immut

import (
	"bytes"
	"fmt"
	"io"
	"os"
	"regexp"
	"strings"

	ipld "github.com/ipld/go-ipld-prime"
	"github.com/ipld/go-ipld-prime/codec/dagcbor"
	"github.com/ipld/go-ipld-prime/codec/dagjson"
	"github.com/ipld/go-ipld-prime/datamodel"
	"github.com/ipld/go-ipld-prime/linking"
	cidlink "github.com/ipld/go-ipld-prime/linking/cid"
	"github.com/ipld/go-ipld-prime/node/basicnode"
	"github.com/ipld/go-ipld-prime/node/bindnode"
	"github.com/ipld/go-ipld-prime/node/gendemo"
	"github.com/ipld/go-ipld-prime/schema"
	"github.com/ipld/go-ipld-prime/storage/memstore"
	"github.com/ipld/go-ipld-prime/traversal"
	"github.com/ipld/go-ipld-prime/traversal/selector"
	"github.com/ipld/go-ipld-prime/traversal/selector/builder"

	"verif/gen"

	"verif/model"
	"verif/scen"
	"verif/scen/bindhist"
	"verif/sim"
)

// dagJSONBytes matches a bytes value as the dag-json encoder writes it (compact, unpadded). Inside a
// JSON string the quotes would be escaped, and the generator never makes the reserved map shape.
var dagJSONBytes = regexp.MustCompile(`\{"/":\{"bytes":"([A-Za-z0-9+/]*)"\}\}`)

type S struct{}

func (S) ID() string    { return "C11" }
func (S) Level() string { return "exploration" }

func (S) Info() scen.Info {
	return scen.Info{
		Rule: "unit = one seeded history of <=80 steps by 2-4 interleaved holders over a pool of <=28 finished nodes from every source (generic builders with every size hint, dag-cbor / dag-json decoders, LinkSystem.Load, reflection-bound builders and Wrap, generated-code builders, plain and subset matches on strings and bytes, focused and walking transforms, stream-backed bytes) with operations: full reads, large-bytes readers read in pieces with seeks, encodes, Copy / AssignNode into other builders that are then extended, whole-node assign then Reset and rebuild, Reset of the producing builder, walks, transforms, DeepEqual, abandoned builders. " +
			"distinct_nontrivial counts distinct hash(node sources in the pool, sequence of (holder, operation, source kind of the node operated on)) over histories with at least one builder reuse or structure-sharing operation followed by a re-read. Later additions: caller-supplied stream readers with short reads, EOF-with-data and one transient fault at first read; the vocabulary shapes of C19 (both views) in the pool; generic Map / List builders as receivers of AssignNode.",
		DistinctSet: "history",
		Assumptions: []string{
			"callers never write into byte slices they passed in or were handed back (the property's stated exclusion), and Go values behind a Wrap are not mutated",
			"a panic of a builder operation (e.g. Reset on a typed builder) changes no node and is not a violation; a panic while re-reading a pooled node is",
			"nodes whose very first read fails (e.g. a transform result holding a nil child, C16's matter) never enter the pool",
			"the snapshot of a derived node (match, transform result) is its first full read",
		},
		Components: map[string]string{
			"datamodel, node/basicnode, node/bindnode, node/gendemo, codec/dagcbor, codec/dagjson, traversal (walk, focus, transforms), traversal/selector, linking, memstore": "real",
			"goroutine scheduling": "stub: seeded one-at-a-time scheduler; yields between operations, between reader chunks, inside visitor and transform callbacks",
		},
		QuickUnits: 50000, ThoroughUnits: 3000000, QuickSecs: 240, ThoroughSecs: 1200,
		ProbeKeys: []string{"probe.other_view_read_by_position", "probe.type_system_merged_elsewhere", "probe.exhausted_iterator_asked_again", "probe.reset_producer", "probe.assign_then_reset", "probe.copy_and_extend", "probe.largebytes_interleaved", "probe.two_readers_same_node", "probe.subset_match_bytes", "probe.subset_match_string", "probe.focused_transform", "probe.walk_transform", "probe.abandoned_builder", "probe.typed_node_in_pool", "probe.stream_bytes_node", "probe.callback_interleaved", "probe.loaded_node_in_pool", "probe.load_while_holding_loaded_nodes", "probe.iterator_nodes_retained", "probe.lookup_result_retained", "probe.extended_after_assign", "probe.stream_reader_unusual_but_legal", "probe.stream_read_fault_fired", "probe.assign_into_specific_generic_builder", "probe.vocabulary_node_in_pool", "probe.stale_assembler_handles_used"},
		EventsKey: "events",
	}
}

type entry struct {
	n      datamodel.Node
	snap   *model.V
	origin string
	nb     datamodel.NodeBuilder // the builder that produced it, when retained
	enc    []byte                // dag-cbor encoding at birth (nil if not encodable)
	encJ   []byte                // dag-json encoding at birth (nil if not encodable)
	sr     *styledReader         // the caller's stream a stream-backed bytes node (or a subset match of one) reads from
	srOff  int64                 // where this node's bytes begin in that stream
}

type reader struct {
	idx     int
	r       io.ReadSeeker
	pos     int64
	open    bool
	gapFrom int64 // >= 0: the last step was a short seek forward from this position (nothing read since)
}

type world struct {
	ts      *schema.TypeSystem
	vts     *schema.TypeSystem // C19's vocabulary schema, compiled on first use in this world
	t       *sim.Tape
	s       *sim.Sim
	o       *sim.Outcome
	st      *sim.Stats
	pool    []*entry
	lsys    linking.LinkSystem
	hist    []string
	share   bool
	cids    []string
	extN    int
	extKeys []string                 // keys that were only ever added to extended copies: no other node may know them
	deadL   []datamodel.ListIterator // iterators that have reported Done, kept by their callers
	deadM   []datamodel.MapIterator
}

type TMap struct {
	Keys   []string
	Values map[string]int64
}

type Rec struct {
	Name string
	N    int64
	Tags []string
	Blob []byte
}

// newTS compiles the scenario's schema; every simulated world gets its own type system (and its
// own copy of C19's vocabulary schema), so that a run cannot inherit damaged shared state.
var selftestSharedTS *schema.TypeSystem

func newTS() *schema.TypeSystem {
	if os.Getenv("VERIF_SELFTEST_SHARED_TS") == "1" {
		// self-test of the driver's worker-history replay only: all worlds of a process share one
		// type system again, so that a change which damages it makes failures depend on process history
		if selftestSharedTS == nil {
			selftestSharedTS = compileTS()
		}
		return selftestSharedTS
	}
	return compileTS()
}

func compileTS() *schema.TypeSystem {
	t, err := ipld.LoadSchemaBytes([]byte(`
type TMap {String:Int}
type Rec struct {
	Name String
	N Int
	Tags [String]
	Blob Bytes
}`))
	if err != nil {
		panic(err)
	}
	return t
}

func safe(f func()) (pan string) {
	defer func() {
		if r := recover(); r != nil {
			if _, ok := r.(interface{ IsStepCap() }); ok {
				panic(r)
			}
			pan = fmt.Sprint(r)
		}
	}()
	f()
	return ""
}

// add puts a node into the pool; snap==nil means "snapshot by first read".
func (w *world) add(n datamodel.Node, snap *model.V, origin string, nb datamodel.NodeBuilder) int {
	if n == nil || len(w.pool) >= 40 {
		return -1
	}
	var first *model.V
	var err error
	if pan := safe(func() { first, err = model.FromNode(n) }); pan != "" || err != nil {
		w.st.Inc("born_unreadable." + origin)
		return -1
	}
	if snap == nil {
		snap = first
	} else if !model.Equal(first, snap) {
		// the node does not hold what was built into it: C01's matter, but it also means no trustworthy snapshot
		w.o.Fail("birth-mismatch", origin, "a node from %s reads back as %s immediately after construction, expected %s", origin, first, snap)
		return -1
	}
	e := &entry{n: n, snap: snap, origin: origin, nb: nb}
	var buf bytes.Buffer
	if pan := safe(func() { err = dagcbor.Encode(n, &buf) }); pan == "" && err == nil {
		e.enc = buf.Bytes()
	}
	var bufJ bytes.Buffer
	if pan := safe(func() { err = dagjson.Encode(n, &bufJ) }); pan == "" && err == nil {
		e.encJ = bufJ.Bytes()
	}
	w.pool = append(w.pool, e)
	return len(w.pool) - 1
}

// checkAll is the invariant: every pooled node still reads as its snapshot.
func (w *world) checkAll(after string) {
	for i, e := range w.pool {
		var got *model.V
		var err error
		pan := safe(func() { got, err = model.FromNode(e.n) })
		if pan != "" || err != nil || !model.Equal(got, e.snap) {
			w.o.Fail("node-changed", e.origin+" node", "pool node #%d (from %s) no longer reads as its snapshot after step %q:\n now: %s (err=%v panic=%s)\n was: %s", i, e.origin, after, got, err, pan, e.snap)
			// do not report the same node again
			e.snap = got
			if got == nil {
				e.snap = model.NullV()
				e.n = datamodel.Null
			}
		}
	}
}

// checkForeignKeys: a key that was only ever added to an extended copy must not be found in any other map node.
func (w *world) checkForeignKeys(after string) {
	for i, e := range w.pool {
		if e.snap.K != model.Map {
			continue
		}
		for _, k := range w.extKeys {
			if e.snap.Get(k) != nil {
				continue
			}
			var v datamodel.Node
			var err error
			if pan := safe(func() { v, err = e.n.LookupByString(k) }); pan == "" && err == nil && v != nil && !v.IsAbsent() {
				w.o.Fail("node-changed", e.origin+" node", "pool node #%d (from %s) now finds key %q by lookup after step %q; that key was only ever added to a copy of it", i, e.origin, k, after)
				return
			}
		}
	}
}

func opClass(s string) string {
	if i := strings.IndexByte(s, '('); i > 0 {
		return s[:i]
	}
	return s
}

func (w *world) buildBasic(v *model.V, proto int) (datamodel.Node, datamodel.NodeBuilder) {
	var np datamodel.NodePrototype = basicnode.Prototype.Any
	switch {
	case proto == 1 && v.K == model.Map:
		np = basicnode.Prototype.Map
	case proto == 1 && v.K == model.List:
		np = basicnode.Prototype.List
	case proto == 1 && v.K == model.String:
		np = basicnode.Prototype.String
	case proto == 1 && v.K == model.Bytes:
		np = basicnode.Prototype.Bytes
	}
	nb := np.NewBuilder()
	if err := model.Assemble(nb, v, gen.LinkFromBin, nil); err != nil {
		panic("harness: " + err.Error())
	}
	return nb.Build(), nb
}

// genKind generates a value of the given kind (what a kind-specific builder accepts).
func (w *world) genKind(k model.Kind, size int) *model.V {
	for try := 0; try < 6; try++ {
		if v := w.genV(size); v.K == k {
			return v
		}
	}
	switch k {
	case model.Map:
		return model.MapV().Put("r1", model.IntV(int64(w.t.Choice(9, "gk.a")))).Put("r2", model.StringV("rebuilt")).Put("r3", model.ListV(model.BoolV(true)))
	case model.List:
		return model.ListV(model.StringV("rebuilt"), model.IntV(int64(w.t.Choice(9, "gk.a"))), model.NullV())
	case model.String:
		return model.StringV("rebuilt string")
	case model.Bytes:
		return model.BytesV([]byte("rebuilt bytes"))
	case model.Int:
		return model.IntV(424242)
	}
	return w.genV(size)
}

func (w *world) genV(size int) *model.V {
	b := size
	return gen.Value(w.t, gen.DagCbor, w.cids, &b, 0)
}

func (S) RunTape(t *sim.Tape, st *sim.Stats, keepLog bool) *sim.Outcome {
	o := &sim.Outcome{}
	s := sim.NewSim(t, sim.NewChanBaton())
	s.Log.Keep = keepLog
	s.MaxSteps = 300000
	s.MaxQ = []int{0, 1, 4}[t.Choice(3, "cfg.maxq")]
	w := &world{t: t, s: s, o: o, st: st, ts: newTS()}
	w.cids = gen.SomeCids(t, 2)
	ms := &memstore.Store{}
	w.lsys = cidlink.DefaultLinkSystem()
	w.lsys.SetReadStorage(ms)
	w.lsys.SetWriteStorage(ms)

	// ---- initial pool ----
	n0 := 3 + t.Choice(6, "npool")
	for i := 0; i < n0; i++ {
		w.spawn(t.Choice(11, "src"))
	}
	for len(w.pool) < 2 {
		w.spawn(0)
	}
	var srcs []string
	for _, e := range w.pool {
		srcs = append(srcs, e.origin)
	}
	s.Log.Add("POOL " + strings.Join(srcs, ","))

	nh := 2 + t.Choice(3, "nholders")
	type step struct{ op, a, b, c int }
	plans := make([][]step, nh)
	total := 0
	for h := 0; h < nh; h++ {
		for total < 80 && len(plans[h]) < 30 && t.Begin("step", 92) {
			plans[h] = append(plans[h], step{t.Choice(26, "op"), t.Choice(64, "a"), t.Choice(64, "b"), t.Choice(64, "c")})
			total++
			t.End()
		}
	}
	for h := 0; h < nh; h++ {
		h := h
		s.Go(fmt.Sprintf("holder%d", h), func() {
			rd := &reader{}
			for _, p := range plans[h] {
				s.Yield("step")
				desc := w.step(h, rd, p.op, p.a, p.b, p.c)
				w.hist = append(w.hist, fmt.Sprintf("h%d:%s", h, desc))
				s.Log.Add(fmt.Sprintf("STEP h%d %s", h, desc))
				w.checkAll(desc)
				w.checkForeignKeys(desc)
			}
		})
	}
	// Holders interleave between their steps, between reader chunks and inside callbacks -- not inside
	// library calls: a step may use a live builder, and builders are single-caller objects (sharing
	// FINISHED nodes between truly concurrent callers is C20's matter).
	s.Run()
	for _, tk := range s.Finished {
		if tk.Panic != nil {
			o.Fail("panic", "harness-task", "holder panicked: %v\n%s", tk.Panic, tk.Stack)
		}
	}
	w.checkAll("end")
	o.Events, o.Capped, o.LogHash, o.Log = s.Seq, s.Capped, s.Log.H, s.Log.Lines
	st.Inc("runs")
	st.Add("events", int64(s.Seq))
	st.Add("steps", int64(total))
	st.Add("pool_nodes", int64(len(w.pool)))
	if w.share {
		h := strings.Join(srcs, ",") + "|" + strings.Join(w.hist, "|")
		st.Distinct("history", sim.HashString(h))
		hs := w.hist
		if len(hs) > 30 {
			hs = hs[:30]
		}
		st.Sample(map[string]interface{}{"initial_pool": srcs, "history": hs})
	}
	st.Distinct("interleaving", s.IHash)
	return o
}

// spawn creates a node from source kind k and pools it.
func (w *world) spawn(k int) {
	t := w.t
	switch k {
	case 0, 1: // generic builder, Any or kind-specific prototype
		v := w.genV(4 + t.Choice(24, "size"))
		n, nb := w.buildBasic(v, k)
		w.add(n, v, "basicnode-builder", nb)
	case 2: // decoder
		v := w.genV(4 + t.Choice(20, "size"))
		n, _ := w.buildBasic(v, 0)
		var buf bytes.Buffer
		nb := basicnode.Prototype.Any.NewBuilder()
		if t.Bool("dec.json") {
			vj := gen.Value(t, gen.DagJson, w.cids, new(int), 0)
			b := 12
			vj = gen.Value(t, gen.DagJson, w.cids, &b, 0)
			nj, _ := w.buildBasic(vj, 0)
			if err := dagjson.Encode(nj, &buf); err == nil {
				doc := buf.Bytes()
				if len(doc)%2 == 1 {
					// the same document with its bytes values in the padded base64 form other writers
					// produce and the decoder accepts: it denotes the same value
					doc = dagJSONBytes.ReplaceAllFunc(doc, func(m []byte) []byte {
						b64 := dagJSONBytes.FindSubmatch(m)[1]
						if len(b64)%4 == 0 {
							return m
						}
						w.st.Inc("probe.dagjson_bytes_repadded")
						return []byte(`{"/":{"bytes":"` + string(b64) + strings.Repeat("=", 4-len(b64)%4) + `"}}`)
					})
				}
				if dagjson.Decode(nb, bytes.NewReader(doc)) == nil {
					w.add(nb.Build(), vj.Canon(model.SortLexical), "dagjson-decoder", nb)
				}
			}
			return
		}
		if err := dagcbor.Encode(n, &buf); err == nil && dagcbor.Decode(nb, &buf) == nil {
			w.add(nb.Build(), v.Canon(model.SortLenFirst), "dagcbor-decoder", nb)
		}
	case 3: // LinkSystem.Load / Fill, every codec (raw blocks decode without copying where the reader allows)
		codec := []gen.Codec{gen.DagCbor, gen.DagCbor, gen.DagJson, gen.Raw, gen.Raw, gen.Cbor}[t.Choice(6, "load.codec")]
		b := 4 + t.Choice(16, "size")
		v := gen.Value(t, codec, w.cids, &b, 0)
		if codec.RawOnly && t.Bool("load.rawsmall") {
			v = model.BytesV(t.Sub("load.raw").Bytes(1 + t.Choice(24, "load.rawlen")))
		}
		n, _ := w.buildBasic(v, 0)
		lp := cidlink.LinkPrototype{Prefix: gen.LinkFromBin(w.cids[0]).(cidlink.Link).Prefix()}
		lp.Codec, lp.MhType, lp.MhLength = codec.Code, 0x12, -1
		l, err := w.lsys.Store(linking.LinkContext{}, lp, n)
		if err != nil {
			return
		}
		var ln datamodel.Node
		if t.Bool("load.fill") {
			nb := basicnode.Prototype.Any.NewBuilder()
			if err = w.lsys.Fill(linking.LinkContext{}, l, nb); err == nil {
				ln = nb.Build()
			}
		} else {
			ln, err = w.lsys.Load(linking.LinkContext{}, l, basicnode.Prototype.Any)
		}
		if err == nil {
			w.add(ln, v.Canon(codec.SortMode), "linksystem-load-"+codec.Name, nil)
			w.st.Inc("probe.loaded_node_in_pool")
		}
	case 4: // bindnode Wrap: type-level and representation views
		r := &Rec{Name: "rec", N: int64(t.Choice(100, "rec.n")), Tags: []string{"x", "yy"}[:t.Choice(3, "rec.tags")], Blob: t.Sub("rec.blob").Bytes(t.Choice(40, "rec.bloblen"))}
		if r.Tags == nil {
			r.Tags = []string{}
		}
		n := bindnode.Wrap(r, w.ts.TypeByName("Rec"))
		w.add(n, nil, "bindnode-wrap", nil)
		w.add(n.Representation(), nil, "bindnode-wrap-repr", nil)
		w.st.Inc("probe.typed_node_in_pool")
	case 5: // bindnode builder
		np := bindnode.Prototype((*Rec)(nil), w.ts.TypeByName("Rec"))
		nb := np.NewBuilder()
		v := model.MapV().Put("Name", model.StringV("built")).Put("N", model.IntV(int64(t.Choice(50, "rec.n")))).
			Put("Tags", model.ListV(model.StringV("t"))).Put("Blob", model.BytesV(t.Sub("rec.blob").Bytes(t.Choice(30, "rec.bloblen"))))
		if err := model.Assemble(nb, v, gen.LinkFromBin, nil); err == nil {
			w.add(nb.Build(), v, "bindnode-builder", nb)
			w.st.Inc("probe.typed_node_in_pool")
		}
	case 6: // generated code
		nb := gendemo.Type.Map__String__Msg3.NewBuilder()
		v := model.MapV()
		for i, n := 0, 1+t.Choice(3, "gd.n"); i < n; i++ {
			v.Put(fmt.Sprintf("k%d", i), model.MapV().Put("whee", model.IntV(int64(i))).Put("woot", model.IntV(int64(t.Choice(9, "gd.v")))).Put("waga", model.IntV(-1)))
		}
		if err := model.Assemble(nb, v, gen.LinkFromBin, nil); err == nil {
			w.add(nb.Build(), v, "gendemo-builder", nb)
			w.st.Inc("probe.typed_node_in_pool")
		}
	case 7: // stream-backed bytes
		b := t.Sub("stream").Bytes(1 + t.Choice(300, "stream.len"))
		// the caller's reader behaves in any way io.ReadSeeker allows: short reads, and the last
		// bytes delivered together with io.EOF
		var rs io.ReadSeeker = bytes.NewReader(b)
		origin := "bytes-from-reader"
		if style := t.Choice(4, "stream.style"); style > 0 {
			sr := &styledReader{b: b, eofWithData: style&1 != 0, failAt: -1}
			if style&2 != 0 {
				sr.maxRead = 1 + t.Choice(16, "stream.maxread")
			}
			rs = sr
			origin = fmt.Sprintf("bytes-from-reader(eofWithData=%v,maxRead=%d)", sr.eofWithData, sr.maxRead)
			w.st.Inc("probe.stream_reader_unusual_but_legal")
		}
		n := basicnode.NewBytesFromReader(rs)
		if sr, ok := rs.(*styledReader); ok && t.Pct(40, "stream.fault") {
			// the caller's stream fails ONCE, at a seeded position, during the first read of the node; the
			// fault is transient, so every later read must deliver the whole content (or an error, never a
			// silently shortened value)
			sr.failAt = int64(t.Choice(len(b)+1, "stream.fault.at"))
			var fb []byte
			var ferr error
			pan := safe(func() { fb, ferr = n.AsBytes() })
			sr.failAt = -1
			if sr.failed {
				w.st.Inc("probe.stream_read_fault_fired")
				w.st.Inc("fired.transient_read_error_of_caller_stream")
				origin += "+transient-read-fault-at-first-read"
				if pan == "" && ferr == nil {
					w.o.Fail("read-fault-swallowed", "bytes-from-reader", "the stream of a stream-backed bytes node failed during AsBytes, which returned %d of %d bytes and a nil error", len(fb), len(b))
				}
			}
		}
		if idx := w.add(n, model.BytesV(b), origin, nil); idx >= 0 {
			if sr, ok := rs.(*styledReader); ok {
				w.pool[idx].sr = sr
			}
		}
		w.st.Inc("probe.stream_bytes_node")
	case 10: // a reflection-bound node of one of C19's vocabulary shapes, type-level view or representation view
		var name string
		var tn schema.TypedNode
		if pan := safe(func() {
			name, tn = bindhist.SampleIn(w.vocabTS(), t.Choice(bindhist.VocabSize(), "vocab.type"), t.Choice(32, "vocab.val"))
		}); pan != "" {
			return
		}
		if t.Bool("vocab.repr") {
			w.add(tn.Representation(), nil, "bindnode-vocab-"+name+"-representation", nil)
		} else {
			w.add(tn, nil, "bindnode-vocab-"+name, nil)
		}
		w.st.Inc("probe.typed_node_in_pool")
		w.st.Inc("probe.vocabulary_node_in_pool")
	case 9: // bindnode typed map, with a repeated key if the builder lets it through
		np := bindnode.Prototype((*TMap)(nil), w.ts.TypeByName("TMap"))
		nb := np.NewBuilder()
		var node datamodel.Node
		pan := safe(func() {
			ma, err := nb.BeginMap(4)
			if err != nil {
				return
			}
			keys := []string{"k1", "k2", "k3", "k2", "k4", "k1"}[:3+t.Choice(4, "dup.n")]
			for i, k := range keys {
				va, err := ma.AssembleEntry(k)
				if err != nil {
					continue // a builder that refuses the repeat is right; go on with the rest
				}
				va.AssignInt(int64(i))
			}
			if ma.Finish() == nil {
				node = nb.Build()
			}
		})
		if pan == "" && node != nil {
			w.add(node, nil, "bindnode-map-builder", nil)
			w.add(node.(schema.TypedNode).Representation(), nil, "bindnode-map-builder-repr", nil)
			w.st.Inc("probe.typed_node_in_pool")
		}
	case 8: // a container holding strings and bytes worth slicing
		v := model.MapV().Put("s", model.StringV("hello wörld, this is a string")).Put("b", model.BytesV(t.Sub("slice.b").Bytes(20+t.Choice(200, "slice.blen")))).
			Put("l", model.ListV(model.StringV("abcdefghij"), model.BytesV([]byte("0123456789"))))
		n, nb := w.buildBasic(v, 0)
		w.add(n, v, "basicnode-builder", nb)
	}
}

var allSel = func() selector.Selector {
	ssb := builder.NewSelectorSpecBuilder(basicnode.Prototype.Any)
	s, err := ssb.ExploreRecursive(selector.RecursionLimitNone(), ssb.ExploreUnion(ssb.Matcher(), ssb.ExploreAll(ssb.ExploreRecursiveEdge()))).Selector()
	if err != nil {
		panic(err)
	}
	return s
}()

// paths lists the paths of an abstract value (up to a bound).
func paths(v *model.V, pre []string, out *[][]string) {
	if len(*out) > 60 {
		return
	}
	*out = append(*out, append([]string(nil), pre...))
	switch v.K {
	case model.Map:
		for i, k := range v.Keys {
			if k == "" || strings.Contains(k, "/") {
				continue
			}
			paths(v.Vals[i], append(pre, k), out)
		}
	case model.List:
		for i, x := range v.Vals {
			paths(x, append(pre, fmt.Sprint(i)), out)
		}
	}
}

func (w *world) step(h int, rd *reader, op, a, b, c int) string {
	t := w.t
	i := a % len(w.pool)
	e := w.pool[i]
	cfg := &traversal.Config{LinkSystem: w.lsys, LinkTargetNodePrototypeChooser: func(datamodel.Link, linking.LinkContext) (datamodel.NodePrototype, error) {
		return basicnode.Prototype.Any, nil
	}}
	switch op {
	case 0: // plain re-read (the invariant does the work)
		return fmt.Sprintf("read(%s#%d)", e.origin, i)
	case 1, 2: // large-bytes reader session
		if !rd.open {
			// find a bytes node
			var cands []int
			for j, x := range w.pool {
				if x.snap.K == model.Bytes {
					cands = append(cands, j)
				}
			}
			if len(cands) == 0 {
				w.spawn(7)
				return "spawn(bytes-from-reader)"
			}
			j := cands[b%len(cands)]
			lb, ok := w.pool[j].n.(datamodel.LargeBytesNode)
			if !ok {
				return "no-largebytes"
			}
			r, err := lb.AsLargeBytes()
			if err != nil {
				return "largebytes-unsupported"
			}
			for _, x := range w.hist {
				if strings.Contains(x, fmt.Sprintf("open-reader(%s#%d)", w.pool[j].origin, j)) {
					w.st.Inc("probe.two_readers_same_node")
					break
				}
			}
			*rd = reader{idx: j, r: r, open: true, gapFrom: -1}
			return fmt.Sprintf("open-reader(%s#%d)", w.pool[j].origin, j)
		}
		want := w.pool[rd.idx].snap.Bs
		sig := w.pool[rd.idx].origin + " large-bytes reader"
		if op == 2 && c%3 == 0 {
			// seek
			np := int64(b) % int64(len(want)+1)
			got, err := rd.r.Seek(np, io.SeekStart)
			if err != nil || got != np {
				w.o.Fail("reader-seek", sig, "Seek(%d) on a large-bytes reader returned (%d, %v)", np, got, err)
			}
			rd.gapFrom = -1
			if np > rd.pos {
				rd.gapFrom = rd.pos
			}
			rd.pos = np
			return fmt.Sprintf("seek-reader(%s#%d,%d)", w.pool[rd.idx].origin, rd.idx, np)
		}
		k := 1 + c%17
		buf := make([]byte, k)
		// After a short hop forward the caller's stream may fail ONCE somewhere between the old and the new
		// position (an implementation that reads through the gap instead of seeking meets it there), or
		// inside the range about to be read: the read may fail, what it delivered must be right, and the
		// retry must carry on from the reader's own position.
		sr := w.pool[rd.idx].sr
		armed := false
		if sr != nil && sr.failAt < 0 && a%2 == 0 && int64(len(want)) > rd.pos {
			// first a look at an earlier byte (every reader step is followed by full re-reads of all nodes,
			// which leave any position tracking at the end: the hop has to happen inside this step) ...
			lo := rd.pos
			if rd.pos > 0 {
				lo = rd.pos - 1 - int64(a/2)%rd.pos
				one := make([]byte, 1)
				if _, err := rd.r.Seek(lo, io.SeekStart); err == nil {
					if n1, _ := io.ReadFull(rd.r, one); n1 == 1 && one[0] != want[lo] {
						w.o.Fail("reader-bytes", sig, "a large-bytes reader delivered %x at position %d, the node's byte there is %x", one, lo, want[lo:lo+1])
					}
				}
				lo++
				rd.r.Seek(rd.pos, io.SeekStart)
			}
			// ... then the fault: in the gap hopped over, or in the range about to be read
			sr.failed = false
			if gap := rd.pos - lo; gap > 0 && b%2 == 0 {
				sr.failAt = w.pool[rd.idx].srOff + lo + int64(b/2)%gap
			} else {
				sr.failAt = w.pool[rd.idx].srOff + rd.pos + int64(b/2)%int64(k)
			}
			armed = true
		}
		rd.gapFrom = -1
		n, err := io.ReadFull(rd.r, buf)
		if armed {
			sr.failAt = -1
		}
		exp := want[min64(rd.pos, int64(len(want))):]
		if len(exp) > k {
			exp = exp[:k]
		}
		if armed && sr.failed && n <= len(exp) {
			exp = exp[:n] // the read was cut short by the fault: what it did deliver must be right
		}
		if !bytes.Equal(buf[:n], exp) {
			w.o.Fail("reader-bytes", sig, "a large-bytes reader at its own position %d delivered %x, the node's bytes there are %x (other holders ran in between; err=%v)", rd.pos, buf[:n], exp, err)
		}
		rd.pos += int64(n)
		if armed && sr.failed {
			// the transient fault fired: read on at once, from where this reader stands
			sr.failed = false
			w.st.Inc("fired.transient_read_error_under_a_reader")
			if strings.HasPrefix(w.pool[rd.idx].origin, "subset-match") {
				w.st.Inc("fired.transient_read_error_under_a_reader_of_a_subset_match")
				if n == 0 {
					w.st.Inc("probe.fault_before_the_first_byte_of_a_subset_read")
				}
			}
			rest := want[min64(rd.pos, int64(len(want))):]
			if len(rest) > 8 {
				rest = rest[:8]
			}
			buf2 := make([]byte, len(rest))
			n2, err2 := io.ReadFull(rd.r, buf2)
			if !bytes.Equal(buf2[:n2], rest[:n2]) || (err2 == nil && n2 != len(rest)) {
				w.o.Fail("reader-bytes", sig, "after a transient fault of the caller's stream, a large-bytes reader at its own position %d delivered %x; the node's bytes there are %x (err=%v)", rd.pos, buf2[:n2], rest, err2)
			}
			rd.pos += int64(n2)
			err = nil
		}
		w.st.Inc("probe.largebytes_interleaved")
		if err != nil || rd.pos >= int64(len(want)) {
			rd.open = false
		}
		return fmt.Sprintf("read-reader(%s#%d,%d)", w.pool[rd.idx].origin, rd.idx, k)
	case 3: // encode again: must equal the birth encoding
		if e.enc == nil {
			return "encode-skip"
		}
		var buf bytes.Buffer
		var err error
		pan := safe(func() { err = dagcbor.Encode(e.n, &buf) })
		if pan != "" || err != nil || !bytes.Equal(buf.Bytes(), e.enc) {
			w.o.Fail("encoding-changed", e.origin, "node #%d (from %s) encodes differently now than at birth (err=%v panic=%s)", i, e.origin, err, pan)
		}
		if e.encJ != nil {
			var bj bytes.Buffer
			pan = safe(func() { err = dagjson.Encode(e.n, &bj) })
			if pan != "" || err != nil || !bytes.Equal(bj.Bytes(), e.encJ) {
				w.o.Fail("encoding-changed", e.origin, "node #%d (from %s) encodes to other dag-json now than at birth (err=%v panic=%s)", i, e.origin, err, pan)
			}
		}
		return fmt.Sprintf("encode(%s#%d)", e.origin, i)
	case 4, 5: // copy / assign into another builder, then extend it
		j := b % len(w.pool)
		f := w.pool[j]
		nb := basicnode.Prototype.Any.NewBuilder()
		if c&8 != 0 {
			if op == 4 {
				nb = basicnode.Prototype.Map.NewBuilder()
			} else {
				nb = basicnode.Prototype.List.NewBuilder()
			}
		}
		var err error
		snap := &model.V{}
		pan := safe(func() {
			if op == 4 {
				ma, e1 := nb.BeginMap(int64(c%4 - 1))
				if e1 != nil {
					err = e1
					return
				}
				*snap = *model.MapV()
				va, _ := ma.AssembleEntry("first")
				err = va.AssignNode(e.n)
				snap.Put("first", e.snap)
				ma.AssembleKey().AssignString("second")
				if e2 := datamodel.Copy(f.n, ma.AssembleValue()); e2 != nil {
					err = e2
				}
				snap.Put("second", f.snap)
				w.s.Yield("extend")
				va, _ = ma.AssembleEntry("extra")
				va.AssignInt(int64(c))
				snap.Put("extra", model.IntV(int64(c)))
				if e3 := ma.Finish(); e3 != nil {
					err = e3
				}
			} else {
				la, e1 := nb.BeginList(int64(c % 3))
				if e1 != nil {
					err = e1
					return
				}
				snap.K = model.List
				err = la.AssembleValue().AssignNode(e.n)
				snap.Vals = append(snap.Vals, e.snap)
				w.s.Yield("extend")
				la.AssembleValue().AssignNode(f.n)
				snap.Vals = append(snap.Vals, f.snap)
				la.AssembleValue().AssignString("tail")
				snap.Vals = append(snap.Vals, model.StringV("tail"))
				if e3 := la.Finish(); e3 != nil {
					err = e3
				}
			}
		})
		if pan == "" && err == nil {
			w.add(nb.Build(), snap, "copy-and-extend", nb)
		}
		w.share = true
		w.st.Inc("probe.copy_and_extend")
		return fmt.Sprintf("copy-extend(%s#%d,%s#%d)", e.origin, i, f.origin, j)
	case 6: // whole-node assign into a fresh builder of the node's own prototype, then Reset and rebuild
		var nb datamodel.NodeBuilder
		var m datamodel.Node
		extendVariant := c%2 == 0 && (e.snap.K == model.Map || e.snap.K == model.List) && len(e.snap.Vals) > 0
		pan := safe(func() {
			nb = e.n.Prototype().NewBuilder()
			// half of the time the receiving builder is the generic map / list builder, whatever
			// implementation the node comes from (its own shortcut for generic nodes, the copying path for others)
			if c&4 != 0 && e.snap.K == model.Map {
				nb = basicnode.Prototype.Map.NewBuilder()
				w.st.Inc("probe.assign_into_specific_generic_builder")
			} else if c&4 != 0 && e.snap.K == model.List {
				nb = basicnode.Prototype.List.NewBuilder()
				w.st.Inc("probe.assign_into_specific_generic_builder")
			}
			if err := nb.AssignNode(e.n); err != nil {
				nb = nil
				return
			}
			if !extendVariant {
				m = nb.Build()
				// a representation-level prototype's builder returns the type-level node of what was
				// assembled; the copy of a representation view is that node's representation view
				if tn, ok := m.(schema.TypedNode); ok {
					if _, srcTyped := e.n.(schema.TypedNode); !srcTyped {
						m = tn.Representation()
					}
				}
			}
		})
		if pan != "" || nb == nil || (!extendVariant && m == nil) {
			return fmt.Sprintf("assign-failed(%s#%d)", e.origin, i)
		}
		if !extendVariant {
			w.add(m, e.snap, "assigned-copy-of-"+e.origin, nil)
		}
		if extendVariant {
			// The builder is NOT built yet: the caller goes on assembling after AssignNode.
			// Some builders (the reflection-bound ones) let a caller go on after AssignNode and extend
			// what was assigned; where a builder refuses (generic ones panic: misuse), nothing happens.
			// Either way the node that was assigned from, and the copy just built, stay as they are.
			safe(func() {
				first := w.firstChild(e.n)
				if first == nil {
					return
				}
				if e.snap.K == model.Map {
					ma, err := nb.BeginMap(1)
					if err != nil {
						return
					}
					w.extN++
					xk := fmt.Sprintf("zz-ext-%d", w.extN)
					w.extKeys = append(w.extKeys, xk)
					va, err := ma.AssembleEntry(xk)
					if err != nil {
						return
					}
					if va.AssignNode(first) != nil {
						return
					}
					if ma.Finish() == nil {
						w.add(nb.Build(), nil, "extended-after-assign-of-"+e.origin, nil)
						w.st.Inc("probe.extended_after_assign")
					}
				} else {
					la, err := nb.BeginList(1)
					if err != nil {
						return
					}
					if la.AssembleValue().AssignNode(first) != nil {
						return
					}
					if la.Finish() == nil {
						w.add(nb.Build(), nil, "extended-after-assign-of-"+e.origin, nil)
						w.st.Inc("probe.extended_after_assign")
					}
				}
			})
			// ... and then the builder is Reset -- possibly WITHOUT ever having been built, with the
			// assigned node's storage still in its hands -- and used for something else
			w.s.Yield("reset")
			safe(func() {
				nb.Reset()
				v := w.genKind(e.snap.K, 8)
				if err := model.Assemble(nb, v, gen.LinkFromBin, nil); err == nil {
					w.add(nb.Build(), v, "rebuilt-after-reset", nb)
					w.st.Inc("probe.assign_reset_without_build_rebuild")
				}
			})
			w.share = true
			return fmt.Sprintf("assign-then-extend-then-reset(%s#%d)", e.origin, i)
		}
		w.s.Yield("reset")
		safe(func() {
			nb.Reset()
			v := w.genKind(e.snap.K, 8)
			if err := model.Assemble(nb, v, gen.LinkFromBin, nil); err == nil {
				w.add(nb.Build(), v, "rebuilt-after-reset", nb)
			}
		})
		w.share = true
		w.st.Inc("probe.assign_then_reset")
		return fmt.Sprintf("assign-then-reset(%s#%d)", e.origin, i)
	case 7: // Reset the builder that produced a pooled node, build something else with it
		if e.nb == nil {
			return "no-producer"
		}
		nb := e.nb
		safe(func() {
			nb.Reset()
			var v *model.V
			if strings.HasPrefix(e.origin, "bindnode") || strings.HasPrefix(e.origin, "gendemo") {
				v = e.snap // typed builders only accept their own shape
			} else {
				v = w.genKind(e.snap.K, 10) // kind-specific prototypes accept only their kind
			}
			if err := model.Assemble(nb, v, gen.LinkFromBin, nil); err == nil {
				w.add(nb.Build(), v, "rebuilt-after-reset", nb)
			}
		})
		w.share = true
		w.st.Inc("probe.reset_producer")
		return fmt.Sprintf("reset-producer(%s#%d)", e.origin, i)
	case 8: // walk everything, reading at every visit and yielding inside the callback
		safe(func() {
			traversal.Progress{Cfg: cfg}.WalkAdv(e.n, allSel, func(p traversal.Progress, n datamodel.Node, _ traversal.VisitReason) error {
				model.FromNode(n)
				if p.Path.Len() == 1 {
					w.s.Yield("visit")
					w.st.Inc("probe.callback_interleaved")
				}
				return nil
			})
		})
		return fmt.Sprintf("walk(%s#%d)", e.origin, i)
	case 9: // focused transform: replace or (maps only) delete; the original must stay as it is
		var ps [][]string
		paths(e.snap, nil, &ps)
		if len(ps) < 2 {
			return "transform-skip"
		}
		p := ps[1+b%(len(ps)-1)]
		del := c%4 == 0
		if del {
			// deletion from a list is C16's known matter; only delete from maps here
			parent := e.snap
			for _, sg := range p[:len(p)-1] {
				if parent.K == model.Map {
					parent = parent.Get(sg)
				} else {
					var ix int
					fmt.Sscan(sg, &ix)
					parent = parent.Vals[ix]
				}
			}
			if parent.K != model.Map {
				del = false
			}
		}
		var res datamodel.Node
		var err error
		pan := safe(func() {
			res, err = traversal.Progress{Cfg: cfg}.FocusedTransform(e.n, datamodel.ParsePath(strings.Join(p, "/")), func(_ traversal.Progress, prev datamodel.Node) (datamodel.Node, error) {
				w.s.Yield("transform-callback")
				w.st.Inc("probe.callback_interleaved")
				if del {
					return nil, nil
				}
				return basicnode.NewString("replaced"), nil
			}, false)
		})
		if pan == "" && err == nil && res != nil {
			w.add(res, nil, "focused-transform-result", nil)
		}
		w.share = true
		w.st.Inc("probe.focused_transform")
		return fmt.Sprintf("focused-transform(%s#%d,%s,del=%v)", e.origin, i, strings.Join(p, "/"), del)
	case 10: // walking transform: bump every int
		var res datamodel.Node
		var err error
		pan := safe(func() {
			res, err = traversal.Progress{Cfg: cfg}.WalkTransforming(e.n, allSel, func(_ traversal.Progress, n datamodel.Node) (datamodel.Node, error) {
				if n.Kind() == datamodel.Kind_Int {
					x, _ := n.AsInt()
					return basicnode.NewInt(x/2 + 1), nil
				}
				return n, nil
			})
		})
		if pan == "" && err == nil && res != nil {
			w.add(res, nil, "walk-transform-result", nil)
		}
		w.share = true
		w.st.Inc("probe.walk_transform")
		return fmt.Sprintf("walk-transform(%s#%d)", e.origin, i)
	case 11: // DeepEqual
		j := b % len(w.pool)
		var eq bool
		pan := safe(func() { eq = datamodel.DeepEqual(e.n, w.pool[j].n) })
		if pan == "" && i == j && !eq && e.snap.K != model.Float {
			w.o.Fail("not-equal-to-itself", e.origin, "DeepEqual(n, n) is false for pool node #%d (from %s): two reads of the same node disagree", i, e.origin)
		}
		return fmt.Sprintf("deepequal(%s#%d,%s#%d)", e.origin, i, w.pool[j].origin, j)
	case 12: // abandon a builder half-way with pooled nodes inside
		safe(func() {
			nb := basicnode.Prototype.Map.NewBuilder()
			ma, err := nb.BeginMap(-1)
			if err != nil {
				return
			}
			va, _ := ma.AssembleEntry("x")
			va.AssignNode(e.n)
			va, _ = ma.AssembleEntry("y")
			la, _ := va.BeginList(2)
			la.AssembleValue().AssignNode(w.pool[b%len(w.pool)].n)
			// never finished
		})
		w.share = true
		w.st.Inc("probe.abandoned_builder")
		return fmt.Sprintf("abandon-builder(%s#%d)", e.origin, i)
	case 16, 17: // nodes handed out by an iterator are retained while the iteration goes on, and assigned by reference into a list
		if e.snap.K != model.Map && e.snap.K != model.List {
			return "retain-skip"
		}
		nb := basicnode.Prototype.List.NewBuilder()
		var want []*model.V
		pan := safe(func() {
			la, err := nb.BeginList(-1)
			if err != nil {
				return
			}
			if e.snap.K == model.Map {
				it := e.n.MapIterator()
				for idx := 0; !it.Done(); idx++ {
					k, v, err := it.Next()
					if err != nil {
						return
					}
					if v.IsAbsent() {
						idx-- // an optional field without a value: iterated, but not part of the data (nor of the snapshot)
						continue
					}
					// the key node (and the value node) of THIS step, kept past the next step
					if idx < 3 {
						w.add(k, model.StringV(e.snap.Keys[idx]), "map-iterator-key-of-"+e.origin, nil)
						w.add(v, e.snap.Vals[idx], "map-iterator-value-of-"+e.origin, nil)
					}
					la.AssembleValue().AssignNode(k)
					want = append(want, model.StringV(e.snap.Keys[idx]))
				}
			} else {
				it := e.n.ListIterator()
				for idx := 0; !it.Done(); idx++ {
					_, v, err := it.Next()
					if err != nil {
						return
					}
					if idx < 3 {
						w.add(v, e.snap.Vals[idx], "list-iterator-value-of-"+e.origin, nil)
					}
					la.AssembleValue().AssignNode(v)
					want = append(want, e.snap.Vals[idx])
				}
			}
			la.Finish()
		})
		if pan == "" && len(want) == len(e.snap.Vals) {
			w.add(nb.Build(), &model.V{K: model.List, Vals: want}, "list-of-iterator-nodes", nil)
		}
		w.share = true
		w.st.Inc("probe.iterator_nodes_retained")
		return fmt.Sprintf("retain-iterator-nodes(%s#%d)", e.origin, i)
	case 25: // the OTHER view of a typed node is read by position and by key (what encoders, printers and path lookups do)
		tn, ok := e.n.(schema.TypedNode)
		if !ok {
			return "other-view-skip"
		}
		var probe func(n datamodel.Node, depth int)
		probe = func(n datamodel.Node, depth int) {
			if n == nil || depth > 4 {
				return
			}
			switch n.Kind() {
			case datamodel.Kind_List:
				for j := int64(0); j < n.Length() && j < 16; j++ {
					if c, err := n.LookupByIndex(j); err == nil {
						probe(c, depth+1)
					}
					if c, err := n.LookupBySegment(datamodel.PathSegmentOfInt(j)); err == nil && c != nil {
						c.Kind()
					}
				}
			case datamodel.Kind_Map:
				var keys []string
				for it := n.MapIterator(); it != nil && !it.Done(); {
					k, _, err := it.Next()
					if err != nil {
						break
					}
					if ks, err := k.AsString(); err == nil {
						keys = append(keys, ks)
					}
				}
				for _, k := range keys {
					if c, err := n.LookupByString(k); err == nil {
						probe(c, depth+1)
					}
				}
				n.Length()
			}
		}
		pan := safe(func() {
			probe(tn.Representation(), 0)
			// and children reached through the type-level view, each through ITS representation
			switch e.n.Kind() {
			case datamodel.Kind_Map:
				for it := e.n.MapIterator(); it != nil && !it.Done(); {
					_, v, err := it.Next()
					if err != nil {
						break
					}
					if tv, ok := v.(schema.TypedNode); ok && !v.IsAbsent() && !v.IsNull() {
						probe(tv.Representation(), 1)
					}
				}
			case datamodel.Kind_List:
				for it := e.n.ListIterator(); it != nil && !it.Done(); {
					_, v, err := it.Next()
					if err != nil {
						break
					}
					if tv, ok := v.(schema.TypedNode); ok && !v.IsAbsent() && !v.IsNull() {
						probe(tv.Representation(), 1)
					}
				}
			}
		})
		_ = pan
		w.st.Inc("probe.other_view_read_by_position")
		return fmt.Sprintf("read-other-view-by-position(%s#%d)", e.origin, i)
	case 23: // the type systems typed nodes belong to are merged into another one, which defines their names differently (or not at all)
		for k, src := range []*schema.TypeSystem{w.ts, w.vts} {
			if src == nil {
				continue
			}
			target := new(schema.TypeSystem)
			target.Init()
			if (c>>uint(k))&1 == 0 {
				for _, name := range src.Names() {
					if _, isStruct := src.TypeByName(name).(*schema.TypeStruct); isStruct {
						target.Accumulate(schema.SpawnString(name))
					} else {
						target.Accumulate(schema.SpawnStruct(name, []schema.StructField{schema.SpawnStructField("zz", "Bool", false, false)}, schema.SpawnStructRepresentationMap(nil)))
					}
				}
			}
			safe(func() { schema.MergeTypeSystem(target, src, true) })
		}
		w.st.Inc("probe.type_system_merged_elsewhere")
		return "merge-type-systems-into-another"
	case 24: // an iterator run to its end is kept; after other iterations have begun it is asked again
		if e.snap.K != model.Map && e.snap.K != model.List {
			return "dead-iterator-skip"
		}
		sig := e.origin + " iterator"
		pan := safe(func() {
			if e.snap.K == model.List {
				it := e.n.ListIterator()
				for !it.Done() {
					if _, _, err := it.Next(); err != nil {
						return
					}
				}
				if len(w.deadL) < 8 {
					w.deadL = append(w.deadL, it)
				}
				fresh := e.n.ListIterator()
				for _, d := range w.deadL {
					if !d.Done() {
						w.o.Fail("exhausted-iterator-revived", sig, "a list iterator that had reported Done answers Done()=false after later iterators were created")
						return
					}
					if _, v, err := d.Next(); err == nil && v != nil {
						w.o.Fail("exhausted-iterator-revived", sig, "Next() of a list iterator that had reported Done handed out an element after later iterators were created")
						return
					}
				}
				n := 0
				for !fresh.Done() {
					if _, _, err := fresh.Next(); err != nil {
						break
					}
					n++
				}
				if n != len(e.snap.Vals) {
					w.o.Fail("node-changed", sig, "a fresh iteration of pool node #%d (from %s) yields %d of its %d elements after exhausted iterators of other nodes were asked again", i, e.origin, n, len(e.snap.Vals))
				}
			} else {
				it := e.n.MapIterator()
				for !it.Done() {
					if _, _, err := it.Next(); err != nil {
						return
					}
				}
				if len(w.deadM) < 8 {
					w.deadM = append(w.deadM, it)
				}
				fresh := e.n.MapIterator()
				for _, d := range w.deadM {
					if !d.Done() {
						w.o.Fail("exhausted-iterator-revived", sig, "a map iterator that had reported Done answers Done()=false after later iterators were created")
						return
					}
					if k, _, err := d.Next(); err == nil && k != nil {
						w.o.Fail("exhausted-iterator-revived", sig, "Next() of a map iterator that had reported Done handed out an entry after later iterators were created")
						return
					}
				}
				n := 0
				for !fresh.Done() {
					_, v, err := fresh.Next()
					if err != nil {
						break
					}
					if !v.IsAbsent() {
						n++
					}
				}
				if n != len(e.snap.Vals) {
					w.o.Fail("node-changed", sig, "a fresh iteration of pool node #%d (from %s) yields %d of its %d entries after exhausted iterators of other nodes were asked again", i, e.origin, n, len(e.snap.Vals))
				}
			}
		})
		_ = pan
		w.st.Inc("probe.exhausted_iterator_asked_again")
		return fmt.Sprintf("ask-exhausted-iterators-again(%s#%d)", e.origin, i)
	case 21, 22: // assembler handles kept past Finish / Build are used again: whatever they answer, the built node stays as it is
		var np datamodel.NodePrototype = basicnode.Prototype.Any
		if c&1 != 0 {
			np = basicnode.Prototype.Map
		}
		nb := np.NewBuilder()
		var ma datamodel.MapAssembler
		var ka, va datamodel.NodeAssembler
		var la datamodel.ListAssembler
		var built datamodel.Node
		want := model.MapV()
		pan := safe(func() {
			var err error
			if ma, err = nb.BeginMap(-1); err != nil {
				return
			}
			ea, _ := ma.AssembleEntry("a")
			ea.AssignInt(1)
			want.Put("a", model.IntV(1))
			if op == 21 {
				// a key is offered through a key assembler and refused as a repetition; the handle is kept
				ka = ma.AssembleKey()
				ka.AssignString("a")
			} else {
				ka = ma.AssembleKey()
				ka.AssignString("k")
				va = ma.AssembleValue()
				va.AssignString("v")
				want.Put("k", model.StringV("v"))
			}
			ea, _ = ma.AssembleEntry("l")
			la, _ = ea.BeginList(-1)
			la.AssembleValue().AssignInt(int64(c))
			la.Finish()
			want.Put("l", model.ListV(model.IntV(int64(c))))
			if ma.Finish() == nil {
				built = nb.Build()
			}
		})
		if pan != "" || built == nil {
			return "stale-assemblers-skip"
		}
		idx := w.add(built, want, "builder-whose-assembler-handles-are-kept", nil)
		w.s.Yield("stale")
		// every kept handle is used once more; refusals and panics are fine
		safe(func() { ka.AssignString("zz-stale-key") })
		safe(func() {
			if va != nil {
				va.AssignString("stale value")
			}
		})
		safe(func() { ma.AssembleValue().AssignInt(99) })
		safe(func() {
			if ea, err := ma.AssembleEntry("zz-stale-entry"); err == nil {
				ea.AssignInt(7)
			}
		})
		safe(func() { la.AssembleValue().AssignInt(1234) })
		safe(func() { ma.Finish() })
		w.st.Inc("probe.stale_assembler_handles_used")
		return fmt.Sprintf("stale-assemblers(#%d)", idx)
	case 19, 20: // nodes returned by lookups are retained (by key, by index, by segment, by node)
		if e.snap.K != model.Map && e.snap.K != model.List || len(e.snap.Vals) == 0 {
			return "lookup-skip"
		}
		j := b % len(e.snap.Vals)
		var got datamodel.Node
		var err error
		pan := safe(func() {
			if e.snap.K == model.Map {
				k := e.snap.Keys[j]
				switch c % 3 {
				case 0:
					got, err = e.n.LookupByString(k)
				case 1:
					got, err = e.n.LookupByNode(basicnode.NewString(k))
				default:
					got, err = e.n.LookupBySegment(datamodel.PathSegmentOfString(k))
				}
			} else {
				switch c % 3 {
				case 0:
					got, err = e.n.LookupByIndex(int64(j))
				case 1:
					got, err = e.n.LookupByNode(basicnode.NewInt(int64(j)))
				default:
					got, err = e.n.LookupBySegment(datamodel.PathSegmentOfInt(int64(j)))
				}
			}
		})
		if pan == "" && err == nil && got != nil {
			// typed maps may hold the same key twice (bindnode accepts it): a lookup then rightly finds one of the two
			if e.snap.K == model.List || countKey(e.snap, e.snap.Keys[j]) == 1 {
				w.add(got, e.snap.Vals[j], "lookup-result-of-"+e.origin, nil)
			} else {
				w.add(got, nil, "lookup-result-of-"+e.origin, nil)
			}
			w.st.Inc("probe.lookup_result_retained")
		}
		return fmt.Sprintf("retain-lookup(%s#%d,%d)", e.origin, i, j)
	case 18: // a reflection-bound typed map whose builder was given the same key twice (it does not refuse)
		w.spawn(9)
		return "spawn(bindnode-map-repeated-key)"
	case 14, 15: // another block is stored and loaded through the same link system while earlier loaded nodes are held
		before := len(w.pool)
		w.spawn(3)
		w.share = true
		if len(w.pool) > before {
			w.st.Inc("probe.load_while_holding_loaded_nodes")
			return fmt.Sprintf("load-another-block(%s)", w.pool[len(w.pool)-1].origin)
		}
		return "load-another-block(pool full)"
	case 13: // subset matches on strings and bytes: every match becomes a pooled node
		ssb := builder.NewSelectorSpecBuilder(basicnode.Prototype.Any)
		from, ln := int64(b%7), int64(1+c%9)
		if (b/7)%3 == 0 {
			ln += 40 + 3*int64(c) // a long range as well (readers hop about inside it)
		}
		sel, err := ssb.ExploreRecursive(selector.RecursionLimitNone(), ssb.ExploreUnion(ssb.MatcherSubset(from, from+ln), ssb.ExploreAll(ssb.ExploreRecursiveEdge()))).Selector()
		if err != nil {
			return "subset-skip"
		}
		safe(func() {
			traversal.Progress{Cfg: cfg}.WalkMatching(e.n, sel, func(p traversal.Progress, n datamodel.Node) error {
				switch n.Kind() {
				case datamodel.Kind_Bytes:
					if idx := w.add(n, nil, "subset-match-bytes", nil); idx >= 0 {
						w.st.Inc("probe.subset_match_bytes")
						if e.sr != nil && e.n.Kind() == datamodel.Kind_Bytes {
							w.pool[idx].sr, w.pool[idx].srOff = e.sr, e.srOff+from
						}
					}
				case datamodel.Kind_String:
					if w.add(n, nil, "subset-match-string", nil) >= 0 {
						w.st.Inc("probe.subset_match_string")
					}
				}
				return nil
			})
		})
		_ = t
		return fmt.Sprintf("subset-match(%s#%d,%d:%d)", e.origin, i, from, from+ln)
	}
	return "noop"
}

// firstChild returns the first value of a map or list node.
func (w *world) firstChild(n datamodel.Node) datamodel.Node {
	switch n.Kind() {
	case datamodel.Kind_Map:
		if it := n.MapIterator(); it != nil && !it.Done() {
			_, v, err := it.Next()
			if err == nil {
				return v
			}
		}
	case datamodel.Kind_List:
		if it := n.ListIterator(); it != nil && !it.Done() {
			_, v, err := it.Next()
			if err == nil {
				return v
			}
		}
	}
	return nil
}

func countKey(v *model.V, k string) int {
	n := 0
	for _, x := range v.Keys {
		if x == k {
			n++
		}
	}
	return n
}

func min64(a, b int64) int64 {
	if a < b {
		return a
	}
	return b
}

func (S) Unit(u *scen.Unit) { u.Exec(nil) }

// styledReader is a caller-supplied io.ReadSeeker over fixed bytes that uses the
// freedoms the io contracts give: at most maxRead bytes per call (0: no limit),
// and optionally io.EOF together with the last bytes.
type styledReader struct {
	b           []byte
	pos         int64
	maxRead     int
	eofWithData bool
	failAt      int64 // >= 0: a Read that would cross this position fails there (armed by the harness, one-shot)
	failed      bool
}

var errStreamFault = fmt.Errorf("injected stream read fault")

func (r *styledReader) Read(p []byte) (int, error) {
	if r.pos >= int64(len(r.b)) {
		return 0, io.EOF
	}
	if r.maxRead > 0 && len(p) > r.maxRead {
		p = p[:r.maxRead]
	}
	if r.failAt >= 0 && r.pos <= r.failAt && r.pos+int64(len(p)) > r.failAt {
		n := copy(p[:r.failAt-r.pos], r.b[r.pos:])
		r.pos += int64(n)
		r.failAt, r.failed = -1, true
		return n, errStreamFault
	}
	n := copy(p, r.b[r.pos:])
	r.pos += int64(n)
	if r.eofWithData && r.pos == int64(len(r.b)) {
		return n, io.EOF
	}
	return n, nil
}

func (r *styledReader) Seek(off int64, whence int) (int64, error) {
	np := off
	switch whence {
	case io.SeekCurrent:
		np += r.pos
	case io.SeekEnd:
		np += int64(len(r.b))
	}
	if np < 0 {
		return 0, fmt.Errorf("negative position")
	}
	r.pos = np
	return np, nil
}

func (w *world) vocabTS() *schema.TypeSystem {
	if w.vts == nil {
		w.vts = bindhist.NewTypeSystem()
	}
	return w.vts
}
