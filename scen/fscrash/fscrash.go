// Package fscrash decides C18: filesystem store writes are atomic.
//
// World: the real storage/fsstore code (os calls redirected by the build
// overlay) over simos; 1-3 writer tasks, 0-2 reader tasks; short workloads.
// A unit is one seeded (workload, schedule): a fault-free run records the fs
// call trace, then the same tape is re-run once per crash point (before every
// mutating call, after the last call, inside every write at several prefix
// lengths), once per error point and variant, and with seeded error pairs.
package fscrash

import (
	"bytes"
	"context"
	"encoding/base32"
	"encoding/hex"
	"fmt"
	"github.com/ipld/go-ipld-prime/zzsimhook"
	"io"
	"os"
	"path/filepath"
	"sort"
	"strings"
	"sync/atomic"
	"time"

	"github.com/ipld/go-ipld-prime/storage"
	"github.com/ipld/go-ipld-prime/storage/fsstore"
	"github.com/ipld/go-ipld-prime/storage/sharding"

	"verif/scen"
	"verif/sim"
	"verif/simos"
)

type S struct{}

func (S) ID() string    { return "C18" }
func (S) Level() string { return "fault_enumeration" }

func (S) Info() scen.Info {
	return scen.Info{
		Rule: "unit = seeded (workload of <=6 store operations over 1-4 keys, task schedule); per unit: 1 fault-free run recording the fs-call trace, then one run per crash point (before every mutating fs call, after the last call, inside every write at prefix 0/1/mid/len-1), one run per (fs call, error variant), seeded error pairs, and seeded (error at an earlier call, crash at a later one) pairs. " +
			"distinct_nontrivial counts distinct hash(trace shape, fault mode, fault position+variant, directory state found at restart) over runs in which the crash or error actually fired. Later additions: the context of the operations cancelled after every number of fs calls; in 15% of workloads rename refuses to replace an existing file.",
		DistinctSet: "faulted_state",
		Assumptions: []string{
			"crash = process death: every completed syscall is durable, nothing else (no power-loss / page-cache model; fsstore documents that it does not fsync)",
			"the kernel's tmpfs (/dev/shm) provides real rename/O_EXCL/ENOENT semantics; simos only orders, fails and kills calls",
			"keys are ASCII alphanumerics (how arbitrary bytes map to paths is C17)",
			"about a third of the keys are committed with two different contents of different lengths during a run; a read must return one of the complete contents committed for its key",
			"absence of a key after an acknowledged put is not a C18 violation (property says absent-or-complete)",
			"files in the content area that no key maps to (by the store's own Get) are not violations; leftover staging files are allowed",
		},
		Components: map[string]string{
			"storage/fsstore, storage/sharding, storage/funcs.go": "real (os.* redirected by build overlay to the control layer)",
			"filesystem":           "real kernel tmpfs under a control layer (simos) that yields, injects errno faults, short writes and process death",
			"crypto/rand":          "stub: names drawn from the tape, optional forced collisions",
			"goroutine scheduling": "stub: seeded one-at-a-time scheduler, yields at every fs call",
		},
		QuickUnits: 800, ThoroughUnits: 150000, QuickSecs: 240, ThoroughSecs: 1200,
		ProbeKeys: []string{"probe.rename_enoent_mkdir", "probe.excl_retry", "probe.mkdir_eexist", "probe.rename_over_existing", "probe.temp_leftover", "probe.reader_complete", "probe.reader_absent", "probe.split_write", "probe.crash_inflight", "probe.reader_complete_two_content_key"},
		EventsKey: "events",
	}
}

var runCounter int64

func shmRoot() string {
	for _, d := range []string{"/dev/shm", os.TempDir()} {
		p := filepath.Join(d, fmt.Sprintf("verif-sim-%d", os.Getpid()))
		if err := os.MkdirAll(p, 0777); err == nil {
			return p
		}
	}
	panic("no scratch directory")
}

type op struct {
	kind   int // 0 Put, 1 PutStream, 2 PutVec, 3 Has, 4 Get, 5 GetStream, 6 Put with cancelled ctx
	key    int
	ver    int   // which committed content of the key (some keys are re-committed with another content)
	pieces []int // split points for stream / vec
	end    int   // 0 commit, 1 abort, 2 abandon
	chunk  int   // reader chunk size
}

var opNames = []string{"Put", "PutStream", "PutVec", "Has", "Get", "GetStream", "PutCancelled"}
var endNames = []string{"commit", "abort", "abandon"}

func (o op) String(keys []string) string {
	s := fmt.Sprintf("%s(%q", opNames[o.kind], keys[o.key])
	if o.kind == 1 || o.kind == 2 {
		s += fmt.Sprintf(",pieces=%v", o.pieces)
	}
	if o.kind == 1 {
		s += "," + endNames[o.end]
	}
	return s + ")"
}

const alnum = "abcdefghijklmnopqrstuvwxyz234567ABCDEFGHIJKLMNOPQRSTUVWXYZ0189"

func genKey(t *sim.Tape) string {
	n := 1 + t.Choice(12, "keylen")
	if t.Pct(15, "keylong") {
		n = 20 + t.Choice(40, "keylen2")
	}
	b := make([]byte, n)
	for i := range b {
		b[i] = alnum[t.Choice(len(alnum), "keychar")]
	}
	return string(b)
}

func genContent(t *sim.Tape, id int) []byte {
	var n int
	switch c := t.Choice(10, "clen.class"); {
	case c == 0:
		n = 0
	case c < 6:
		n = 1 + t.Choice(64, "clen")
	case c < 9:
		n = 65 + t.Choice(4000, "clen")
	default:
		n = 4096 + t.Choice(40000, "clen")
	}
	b := t.Sub("content").Bytes(n)
	// make contents of different keys differ from the first byte on
	for i := 0; i < len(b) && i < 4; i++ {
		b[i] = byte('A' + id)
	}
	return b
}

func escIdentity(s string) string { return s }
func escHexish(s string) string   { return fmt.Sprintf("%x", s) }

type world struct {
	t        *sim.Tape
	s        *sim.Sim
	d        *simos.Disk
	o        *sim.Outcome
	st       *sim.Stats
	keys     []string
	cont     [][]byte
	alt      [][]byte // second content of a key, of another length (nil: the key only ever has one)
	store    *fsstore.Store
	cfg      string
	inflight map[int]bool

	cancelAt   int // fs-call count from which the operations' context reports Canceled (-1: never)
	cancelSeen bool
}

func (w *world) content(k, ver int) []byte {
	if ver == 1 && w.alt[k] != nil {
		return w.alt[k]
	}
	return w.cont[k]
}

// complete reports whether b is one of the complete contents committed for key k.
func (w *world) complete(k int, b []byte) bool {
	return bytes.Equal(b, w.cont[k]) || (w.alt[k] != nil && bytes.Equal(b, w.alt[k]))
}

func (w *world) classify(b []byte) (int, bool) {
	for i, c := range w.cont {
		if bytes.Equal(b, c) {
			return i, true
		}
	}
	return -1, false
}

func describe(b []byte, want []byte) string {
	pre := len(b) <= len(want) && bytes.Equal(b, want[:len(b)])
	return fmt.Sprintf("got %d bytes, want %d bytes, got-is-prefix-of-want=%v", len(b), len(want), pre)
}

func (w *world) initStore(esc, shard int) (*fsstore.Store, error) {
	st := &fsstore.Store{}
	var ef func(string) string
	var sf func(string, *[]string)
	switch esc {
	case 0:
		ef = nil
	case 1:
		ef = escIdentity
	case 2:
		ef = escHexish
	}
	switch shard {
	case 0:
		sf = sharding.Shard_r12
	case 1:
		sf = sharding.Shard_r122
	case 2:
		sf = sharding.Shard_r133
	case 3:
		sf = shardFlat
	}
	var err error
	if esc == 0 {
		err = st.InitDefaults(w.d.Base)
	} else {
		err = st.Init(w.d.Base, ef, sf)
	}
	return st, err
}

func (S) RunTape(t *sim.Tape, st *sim.Stats, keepLog bool) *sim.Outcome {
	o := &sim.Outcome{}
	s := sim.NewSim(t, sim.NewChanBaton())
	s.Log.Keep = keepLog
	s.MaxSteps = 100000
	root := filepath.Join(shmRoot(), fmt.Sprintf("r%d", atomic.AddInt64(&runCounter, 1)))
	base := filepath.Join(root, "store")
	if err := os.MkdirAll(base, 0777); err != nil {
		panic(err)
	}
	d := simos.NewDisk(s, base)
	d.Install()
	defer func() {
		simos.Uninstall()
		d.CloseAll()
		os.RemoveAll(root)
	}()
	w := &world{t: t, s: s, d: d, o: o, st: st, inflight: map[int]bool{}, cancelAt: -1}
	// function-entry yields inside the storage packages (build overlay): callers can be
	// interleaved between the steps of computing a path, not only at file-system calls
	zzsimhook.Yield = s.Yield
	zzsimhook.YieldBlocked = s.YieldBlocked
	defer func() { zzsimhook.Yield, zzsimhook.YieldBlocked = nil, nil }()

	// ---- per-run configuration (swarm) ----
	esc := t.Choice(3, "cfg.esc")
	shard := t.Choice(4, "cfg.shard")
	d.SplitWrites = t.Bool("cfg.splitwrites")
	d.NoReplaceRename = t.Pct(15, "cfg.rename_noreplace")
	d.RandCollide = []int{0, 0, 25}[t.Choice(3, "cfg.randcollide")]
	predir := t.Pct(20, "cfg.predir") // pre-create a shard directory (other arm of move/haveDir)
	s.MaxQ = []int{0, 2, 8}[t.Choice(3, "cfg.maxq")]

	// ---- workload ----
	nkeys := 1 + t.Choice(4, "nkeys")
	for i := 0; i < nkeys; i++ {
		var k string
		if i > 0 && t.Pct(35, "key.sibling") {
			// share the tail (and therefore the shard directory) with an earlier key
			prev := w.keys[t.Choice(i, "key.sib.of")]
			k = string(alnum[t.Choice(len(alnum), "keychar")]) + prev
			if len(prev) > 1 {
				k = string(alnum[t.Choice(len(alnum), "keychar")]) + prev[1:]
			}
		} else {
			k = genKey(t)
		}
		dup := false
		for _, e := range w.keys {
			if e == k {
				dup = true
			}
		}
		if dup {
			k = k + fmt.Sprintf("x%d", i)
		}
		w.keys = append(w.keys, k)
		w.cont = append(w.cont, genContent(t, i))
		var alt []byte
		if t.Pct(30, "key.twocontents") {
			// the same key committed again with different bytes of a different length
			alt = genContent(t, i+8)
			if len(alt) == len(w.cont[i]) {
				alt = append(alt, 'x')
			}
		}
		w.alt = append(w.alt, alt)
	}
	nW := 1 + t.Choice(3, "nwriters")
	nR := t.Choice(3, "nreaders")
	var plans [][]op
	total := 0
	for ti := 0; ti < nW+nR; ti++ {
		var ops []op
		maxOps, cont := 4, 75
		if ti >= nW {
			maxOps, cont = 8, 90 // readers poll: most interesting reads happen while or after writers work
		}
		for total < 14 && len(ops) < maxOps && t.Begin("op", cont) {
			var p op
			p.key = t.Choice(nkeys, "op.key")
			if w.alt[p.key] != nil {
				p.ver = t.Choice(2, "op.ver")
			}
			if ti < nW {
				p.kind = []int{0, 0, 1, 1, 1, 2, 6}[t.Choice(7, "op.wkind")]
				if p.kind == 1 || p.kind == 2 {
					np := t.Choice(4, "op.npieces")
					for j := 0; j < np; j++ {
						p.pieces = append(p.pieces, t.Choice(len(w.content(p.key, p.ver))+1, "op.split"))
					}
					sort.Ints(p.pieces)
				}
				if p.kind == 1 {
					p.end = []int{0, 0, 0, 1, 2}[t.Choice(5, "op.end")]
				}
			} else {
				p.kind = 3 + t.Choice(3, "op.rkind")
				p.chunk = []int{1, 7, 512, 1 << 16}[t.Choice(4, "op.chunk")]
			}
			ops = append(ops, p)
			total++
			t.End()
		}
		plans = append(plans, ops)
	}

	// ---- fault plan (enumeration dimensions; forced by the enumerator) ----
	mode := t.Choice(6, "fault.mode") // 0 none, 1 crash, 2 error, 3 two errors, 4 an error and later a crash, 5 the callers' context is cancelled once <at> fs calls were made
	at := t.Choice(160, "fault.at")
	variant := t.Choice(6, "fault.variant") // crash: 0 = before call, 1..4 = inside write at prefix 0/1/mid/len-1
	at2 := t.Choice(160, "fault.at2")
	variant2 := t.Choice(6, "fault.variant2")
	switch mode {
	case 1:
		d.CrashAt = at
		if variant > 0 && variant <= 4 {
			d.CrashPrefixSel = variant
		}
	case 2:
		d.ErrAt = map[int]int{at: variant}
	case 3:
		d.ErrAt = map[int]int{at: variant, at2: variant2}
	case 5:
		w.cancelAt = at
	case 4:
		// the process meets an error, carries on (error handling, clean-up), and dies later
		d.ErrAt = map[int]int{at2: variant2}
		d.CrashAt = at
		if variant > 0 && variant <= 4 {
			d.CrashPrefixSel = variant
		}
	}
	w.cfg = fmt.Sprintf("esc=%d shard=%d split=%v collide=%d predir=%v keys=%d writers=%d readers=%d mode=%d at=%d var=%d", esc, shard, d.SplitWrites, d.RandCollide, predir, nkeys, nW, nR, mode, at, variant)
	s.Log.Add("CFG " + w.cfg)
	for ti, ops := range plans {
		for _, p := range ops {
			s.Log.Add(fmt.Sprintf("PLAN t%d %s", ti, p.String(w.keys)))
		}
	}

	// ---- phase 1: init + tasks ----
	store, err := w.initStore(esc, shard)
	initOK := err == nil
	if !initOK && mode == 0 {
		o.Fail("init-fault-free", "fsstore.Init", "Init failed on a healthy disk: %v", err)
	}
	w.store = store
	if initOK && predir && !d.Dead {
		// a previous process left a shard directory behind: legal state
		var shards []string
		sf := []func(string, *[]string){sharding.Shard_r12, sharding.Shard_r122, sharding.Shard_r133, shardFlat}[shard]
		if esc == 0 {
			sf = sharding.Shard_r12
		}
		sf(w.keys[0], &shards)
		os.MkdirAll(filepath.Join(append([]string{base}, shards[:len(shards)-1]...)...), 0777)
	}
	if initOK {
		for ti, ops := range plans {
			ti, ops := ti, ops
			name := "writer"
			if ti >= nW {
				name = "reader"
			}
			s.Go(name, func() { w.runOps(ti, ops) })
		}
		s.Run()
		for _, tk := range s.Finished {
			if tk.Panic != nil {
				o.Fail("panic", "fsstore", "task %s panicked: %v\n%s", tk.Name, tk.Panic, tk.Stack)
			}
		}
	}
	phase1Calls := d.NCalls()
	trace := append([]simos.Call(nil), d.Trace...)
	fired := d.Dead || len(d.Faults) > 0 || w.cancelSeen
	if (mode == 1 || mode == 4) && !d.Dead {
		// the crash point lies beyond the trace: the process dies after its last call
		d.Dead = true
	}
	if len(d.Escapes) > 0 {
		o.Fail("escape", "fsstore path outside base", "paths outside the base directory were touched: %v", d.Escapes)
	}

	// ---- phase 2: restart (a new process on the same directory) ----
	d.CloseAll()
	d.Revive()
	w.recover(esc, shard, mode)

	// ---- evidence ----
	o.Aux = trace
	o.Events = s.Seq
	o.Capped = s.Capped
	o.LogHash = s.Log.H
	o.Log = s.Log.Lines
	st.Inc("runs")
	st.Inc(fmt.Sprintf("runs.mode%d", mode))
	st.Add("events", int64(s.Seq))
	st.Add("fs_calls", int64(phase1Calls))
	if s.Capped {
		st.Inc("runs.capped")
	}
	st.AddMap("fired.", d.Fired)
	if w.cancelSeen {
		st.Inc("fired.ctx_cancelled")
	}
	st.AddMap("probe.", d.Probes)
	for _, c := range trace {
		switch {
		case c.Op == "create" && c.Err == "EEXIST":
			st.Inc("probe.excl_retry")
		case c.Op == "rename" && c.Err == "ENOENT":
			st.Inc("probe.rename_enoent_mkdir")
		case c.Op == "mkdir" && strings.HasPrefix(c.Err, "EEXIST") && c.Path != ".temp":
			st.Inc("probe.mkdir_eexist")
		}
	}
	if nW+nR > 1 && mode == 0 {
		st.Distinct("interleaving", s.IHash)
	}
	if mode != 0 && fired {
		var sh strings.Builder
		for _, c := range trace {
			sh.WriteString(c.Op)
			sh.WriteByte(',')
		}
		st.Distinct("faulted_state", sim.HashString(fmt.Sprintf("%s|%d|%d|%d|%s", sh.String(), mode, at, variant, w.dirState())))
		if len(w.inflight) > 0 {
			st.Inc("probe.crash_inflight")
		}
	}
	if mode == 0 {
		var ops []string
		for ti, p := range plans {
			for _, q := range p {
				ops = append(ops, fmt.Sprintf("t%d:%s", ti, q.String(w.keys)))
			}
		}
		var tr []string
		for i, c := range trace {
			if i < 40 {
				tr = append(tr, c.String())
			}
		}
		st.Sample(map[string]interface{}{"config": w.cfg, "ops": ops, "fs_trace": tr})
	}
	return o
}

func (w *world) dirState() string {
	var ents []string
	filepath.Walk(w.d.Base, func(p string, fi os.FileInfo, err error) error {
		if err != nil {
			return nil
		}
		rel, _ := filepath.Rel(w.d.Base, p)
		if strings.HasPrefix(rel, ".temp"+string(os.PathSeparator)) {
			ents = append(ents, fmt.Sprintf("T%d", fi.Size()))
			return nil
		}
		ents = append(ents, fmt.Sprintf("%s:%d", rel, fi.Size()))
		return nil
	})
	sort.Strings(ents)
	return strings.Join(ents, ";")
}

func (w *world) runOps(ti int, ops []op) {
	ctx := w.opCtx()
	for _, p := range ops {
		w.s.Yield("op")
		key, content := w.keys[p.key], w.content(p.key, p.ver)
		w.s.Log.Add(fmt.Sprintf("OP t%d %s ver=%d", ti, p.String(w.keys), p.ver))
		switch p.kind {
		case 0:
			w.inflight[p.key] = true
			buf := append([]byte(nil), content...)
			err := w.store.Put(ctx, key, buf)
			w.s.Log.Add(fmt.Sprintf("RET t%d Put err=%v", ti, err != nil))
		case 6:
			cctx, cancel := context.WithCancel(context.Background())
			cancel()
			err := w.store.Put(cctx, key, append([]byte(nil), content...))
			if err == nil {
				// not a C18 matter; recorded only
				w.st.Inc("probe.cancelled_put_succeeded")
			}
		case 1:
			w.inflight[p.key] = true
			wr, commit, err := w.store.PutStream(ctx)
			if err != nil {
				continue
			}
			failed := false
			prev := 0
			for _, sp := range append(append([]int(nil), p.pieces...), len(content)) {
				if sp == prev && sp != len(content) {
					continue
				}
				if _, err := wr.Write(content[prev:sp]); err != nil {
					failed = true
					break
				}
				prev = sp
			}
			end := p.end
			if failed && end == 0 {
				end = 1 // a caller whose write failed aborts (or abandons), never commits
			}
			switch end {
			case 0:
				err = commit(key)
				w.s.Log.Add(fmt.Sprintf("RET t%d commit err=%v", ti, err != nil))
			case 1:
				commit("")
			case 2:
				// abandoned: neither committed nor aborted
				w.st.Inc("probe.abandoned_stream")
			}
		case 2:
			w.inflight[p.key] = true
			var vec [][]byte
			prev := 0
			for _, sp := range append(append([]int(nil), p.pieces...), len(content)) {
				vec = append(vec, append([]byte(nil), content[prev:sp]...))
				prev = sp
			}
			if err := storage.PutVec(ctx, w.store, key, vec); err != nil || len(p.pieces)%2 == 1 {
				// the caller puts the same vector again: a retry after the error, or an idempotent re-put
				w.st.Inc("probe.putvec_same_vector_again")
				storage.PutVec(ctx, w.store, key, vec)
			}
		case 3:
			has, err := w.store.Has(ctx, key)
			w.s.Log.Add(fmt.Sprintf("RET t%d Has=%v err=%v", ti, has, err != nil))
		case 4:
			b, err := w.store.Get(ctx, key)
			if err == nil {
				w.checkRead("Get", p.key, b)
			} else {
				w.st.Inc("probe.reader_absent")
			}
		case 5:
			rc, err := w.store.GetStream(ctx, key)
			if err != nil {
				w.st.Inc("probe.reader_absent")
				continue
			}
			var got []byte
			buf := make([]byte, p.chunk)
			var rerr error
			for {
				n, e := rc.Read(buf)
				got = append(got, buf[:n]...)
				if e != nil {
					if e != io.EOF {
						rerr = e
					}
					break
				}
			}
			rc.Close()
			if rerr == nil {
				w.checkRead("GetStream", p.key, got)
			}
		}
	}
}

func (w *world) checkRead(how string, k int, got []byte) {
	if w.complete(k, got) {
		w.st.Inc("probe.reader_complete")
		if w.alt[k] != nil {
			w.st.Inc("probe.reader_complete_two_content_key")
		}
		return
	}
	w.o.Fail("reader-partial", "concurrent "+how, "%s(%q) during the run returned a partial or mixed block: %s", how, w.keys[k], w.describeK(k, got))
}

func (w *world) describeK(k int, got []byte) string {
	s := describe(got, w.cont[k])
	if w.alt[k] != nil {
		s += "; against the key's other committed content: " + describe(got, w.alt[k])
	}
	return s
}

// recover is the new process: Init on the same directory, then the post-crash invariants.
func (w *world) recover(esc, shard, mode int) {
	// an operation of the new process that never returns (it retries forever) ends the phase at the
	// simulator's step cap: that is the store being unusable, not trouble of the harness
	defer func() {
		if r := recover(); r != nil {
			if _, ok := r.(sim.LivelockOutside); ok {
				w.o.Fail("restart-unusable", "an operation of the new process never returns", "after the run (mode %d) a new process on the same directory started an operation that made %d file-system calls without ever returning (the last: %s)", mode, w.d.NCalls(), w.lastCalls(4))
				return
			}
			panic(r)
		}
	}()
	ctx := context.Background()
	o := w.o
	// directory scan first (before the new process writes anything): which
	// regular files exist outside the staging area
	nTemp := 0
	var found []string
	filepath.Walk(w.d.Base, func(p string, fi os.FileInfo, err error) error {
		if err != nil || fi.IsDir() {
			return nil
		}
		rel, _ := filepath.Rel(w.d.Base, p)
		if strings.HasPrefix(rel, ".temp"+string(os.PathSeparator)) {
			nTemp++
			return nil
		}
		found = append(found, rel)
		return nil
	})
	if nTemp > 0 {
		w.st.Inc("probe.temp_leftover")
	}
	st2, err := w.initStore(esc, shard)
	if err != nil {
		o.Fail("restart-init", "fsstore.Init", "a new process cannot Init the store directory after the run (mode %d): %v", mode, err)
		return
	}
	for i, key := range w.keys {
		has, herr := st2.Has(ctx, key)
		b, gerr := st2.Get(ctx, key)
		if gerr == nil && !w.complete(i, b) {
			o.Fail("post-partial", "Get after restart", "Get(%q) after restart returned a partial or mixed block: %s", key, w.describeK(i, b))
		}
		if herr == nil && has && gerr != nil {
			o.Fail("post-has-unreadable", "Has true but Get fails after restart", "Has(%q)=true after restart but Get fails: %v", key, gerr)
		}
		if rc, serr := st2.GetStream(ctx, key); serr == nil {
			sb, rerr := io.ReadAll(rc)
			rc.Close()
			if rerr == nil && !w.complete(i, sb) {
				o.Fail("post-partial", "GetStream after restart", "GetStream(%q) after restart returned a partial or mixed block: %s", key, w.describeK(i, sb))
			}
		}
		if gerr == nil {
			w.st.Inc("post.key_complete")
		} else {
			w.st.Inc("post.key_absent")
		}
	}
	// every file in the content area that the store itself maps to a key must
	// be a key somebody committed, holding its complete content. The store's
	// own mapping is used (candidate keys are derived from the file name and
	// handed to Get), so the check does not mirror the key-to-path function
	// and does not object to unaddressable leftovers.
	for _, rel := range found {
		bn := filepath.Base(rel)
		cands := []string{bn}
		if hb, err := hex.DecodeString(bn); err == nil {
			cands = append(cands, string(hb))
		}
		if bb, err := base32.StdEncoding.WithPadding(base32.NoPadding).DecodeString(bn); err == nil {
			cands = append(cands, string(bb))
		}
		for _, ck := range cands {
			isW := false
			for _, k := range w.keys {
				if k == ck {
					isW = true
				}
			}
			if isW {
				continue // checked above
			}
			if b, err := st2.Get(ctx, ck); err == nil {
				what := fmt.Sprintf("%d bytes equal to no workload content", len(b))
				for i, c := range w.cont {
					if len(b) <= len(c) && bytes.Equal(b, c[:len(b)]) {
						what = fmt.Sprintf("a prefix (%d of %d bytes) of the content of key %q", len(b), len(c), w.keys[i])
					}
				}
				o.Fail("post-phantom-key", "never-committed key readable after restart", "key %q was never committed, yet Get returns %s (file %s)", ck, what, rel)
			}
		}
		w.st.Inc("post.files_scanned")
	}
	// bounded liveness once faults stop: the first attempt succeeds
	fresh := "Zfresh" + w.keys[0]
	fc := []byte("fresh-content-" + fresh)
	if err := st2.Put(ctx, fresh, fc); err != nil {
		o.Fail("restart-unusable", "Put fresh key after restart", "first Put of a fresh key by a new process failed: %v", err)
	} else if b, err := st2.Get(ctx, fresh); err != nil || !bytes.Equal(b, fc) {
		o.Fail("restart-unusable", "Get fresh key after restart", "fresh key does not read back after restart: err=%v", err)
	}
	for i, key := range w.keys {
		if err := st2.Put(ctx, key, append([]byte(nil), w.cont[i]...)); err != nil {
			o.Fail("restart-unusable", "re-Put of workload key after restart", "first re-Put(%q) by a new process failed: %v", key, err)
			continue
		}
		b, err := st2.Get(ctx, key)
		// complete = the content just put or, where the store keeps what exists (a rename that does not
		// replace), the other complete content that was committed for this key before
		if err != nil || !(bytes.Equal(b, w.cont[i]) || (w.d.NoReplaceRename && w.complete(i, b))) {
			o.Fail("restart-unusable", "Get after re-Put", "re-Put(%q) does not read back complete: err=%v", key, err)
		}
	}
	if len(w.d.Escapes) > 0 && len(o.Viol) == 0 {
		o.Fail("escape", "fsstore path outside base", "paths outside the base directory were touched: %v", w.d.Escapes)
	}
}

// Unit: fault-free run, then enumerate.
func (sc S) Unit(u *scen.Unit) {
	base := u.Exec(map[string]int{"fault.mode": 0})
	trace, _ := base.Aux.([]simos.Call)
	if len(base.Viol) > 0 {
		return
	}
	n := len(trace)
	if n > 158 {
		n = 158
	}
	u.St.Add("enum.trace_calls", int64(n))
	// crash points
	for i := 0; i <= n; i++ {
		if i < n && !trace[i].Mut {
			continue
		}
		u.Exec(map[string]int{"fault.mode": 1, "fault.at": i, "fault.variant": 0})
		u.St.Inc("enum.crash_points")
		if i < n && trace[i].Op == "write" && trace[i].N >= 1 {
			for v := 1; v <= 4; v++ {
				if trace[i].N < 3 && v > 2 {
					continue
				}
				u.Exec(map[string]int{"fault.mode": 1, "fault.at": i, "fault.variant": v})
				u.St.Inc("enum.crash_points")
			}
		}
	}
	// cancellation points: the context every operation was given is cancelled after i calls
	for i := 0; i <= n; i++ {
		u.Exec(map[string]int{"fault.mode": 5, "fault.at": i})
		u.St.Inc("enum.cancel_points")
	}
	// error points: every call, every variant
	for i := 0; i < n; i++ {
		c := trace[i]
		vs := simos.FaultVariants(c.Op, c.N, c.Mut)
		for v := range vs {
			u.Exec(map[string]int{"fault.mode": 2, "fault.at": i, "fault.variant": v})
			u.St.Inc("enum.error_points")
		}
	}
	// seeded error pairs (positions and variants from the tape itself)
	pairs := 4
	if u.Tier == "thorough" {
		pairs = 12
	}
	// an error at an earlier call, then a crash at a later one (seeded pairs)
	for k := 0; k < pairs*2 && n > 2; k++ {
		x := int(sim.SeedFor(int64(u.Seed), "ec.err", k) % uint64(n-1))
		y := x + 1 + int(sim.SeedFor(int64(u.Seed), "ec.crash", k)%uint64(n-x))
		u.Exec(map[string]int{"fault.mode": 4, "fault.at": y, "fault.at2": x,
			"fault.variant": int(sim.SeedFor(int64(u.Seed), "ec.v", k) % 5), "fault.variant2": int(sim.SeedFor(int64(u.Seed), "ec.v2", k) % 6)})
		u.St.Inc("enum.error_then_crash")
	}
	for k := 0; k < pairs && n > 1; k++ {
		x := int(sim.SeedFor(int64(u.Seed), "pair", k) % uint64(n))
		y := int(sim.SeedFor(int64(u.Seed), "pair2", k) % uint64(n))
		u.Exec(map[string]int{"fault.mode": 3, "fault.at": x, "fault.at2": y,
			"fault.variant": int(sim.SeedFor(int64(u.Seed), "v", k) % 6), "fault.variant2": int(sim.SeedFor(int64(u.Seed), "v2", k) % 6)})
		u.St.Inc("enum.error_pairs")
	}
}

// simCtx is the context operations run under in cancellation mode: it reports
// Canceled from the moment the simulated disk has served cancelAt calls (a
// parent context cancelled at an arbitrary instant between two system calls).
type simCtx struct {
	w    *world
	done chan struct{}
}

func (c *simCtx) cancelled() bool {
	if c.w.d.NCalls() >= c.w.cancelAt {
		c.w.cancelSeen = true
		select {
		case <-c.done:
		default:
			close(c.done)
		}
		return true
	}
	return false
}
func (c *simCtx) Deadline() (time.Time, bool)   { return time.Time{}, false }
func (c *simCtx) Done() <-chan struct{}         { c.cancelled(); return c.done }
func (c *simCtx) Value(interface{}) interface{} { return nil }
func (c *simCtx) Err() error {
	if c.cancelled() {
		return context.Canceled
	}
	return nil
}

func (w *world) opCtx() context.Context {
	if w.cancelAt < 0 {
		return context.Background()
	}
	return &simCtx{w: w, done: make(chan struct{})}
}

// shardFlat is a user-defined sharding function: no shard directories at all.
func shardFlat(key string, shards *[]string) { *shards = append(*shards, key) }

// lastCalls renders the last n file-system calls.
func (w *world) lastCalls(n int) string {
	tr := w.d.Trace
	if len(tr) > n {
		tr = tr[len(tr)-n:]
	}
	var parts []string
	for _, c := range tr {
		parts = append(parts, c.Op+" "+c.Path+" "+c.Err)
	}
	return strings.Join(parts, "; ")
}
