// Package walkctl decides C15: traversal controls only restrict a walk.
//
// Shape: run the walk fault-free and record its trace W0 (visits and block
// loads observed on the storage seam); then inject each interruption /
// refusal at EVERY position of that trace — node budget 0..V+1, link budget
// 0..K+1, a start-at path for every visit, a SkipMe for every link, visit-once
// — and require the restricted run to be exactly the prefix / tail /
// subsequence of W0 that the control denotes. The oracle is the same code's
// own fault-free run: no model of selector semantics is involved.
package walkctl

import (
	"context"
	"errors"
	"fmt"
	"strings"

	_ "github.com/ipld/go-ipld-prime/codec/dagcbor"
	_ "github.com/ipld/go-ipld-prime/codec/dagjson"
	"github.com/ipld/go-ipld-prime/datamodel"
	"github.com/ipld/go-ipld-prime/linking"
	cidlink "github.com/ipld/go-ipld-prime/linking/cid"
	"github.com/ipld/go-ipld-prime/node/basicnode"
	"github.com/ipld/go-ipld-prime/storage/memstore"
	"github.com/ipld/go-ipld-prime/traversal"
	"github.com/ipld/go-ipld-prime/traversal/selector"
	"github.com/ipld/go-ipld-prime/traversal/selector/builder"

	"verif/gen"
	"verif/model"
	"verif/scen"
	"verif/sim"
	"verif/simstore"
)

type S struct{}

func (S) ID() string    { return "C15" }
func (S) Level() string { return "fault_enumeration" }

func (S) Info() scen.Info {
	return scen.Info{
		Rule: "unit = seeded (DAG of 1-10 blocks with shared, repeated and dangling links; selector built with the repository's selector builder). Per unit: the unrestricted WalkAdv trace W0 (V visits, K block loads) is recorded, then one run per control position: NodeBudget 0..V+1, LinkBudget 0..K+1, StartAtPath = path of every visit (as Path and re-parsed from its string), SkipMe for every distinct link and seeded subsets, LinkVisitOnlyOnce, budget-then-resume for every N, each also under WalkMatching; the transforming walk under NodeBudget 0..V+1 (callbacks must be a prefix of the unrestricted run's, with a budget error whenever the budget is smaller than the number of callbacks); in half of the units the store offers only Has/Get, so blocks and SkipMe travel through storage.GetStream's fallback. " +
			"distinct_nontrivial counts distinct hash(W0 shape, control, position, outcome) over runs whose control actually cut the walk (restricted trace != W0). Later additions: redirect blocks; under WalkTransforming visit-once, every link budget and a loader skipping each link; Focus / Get / FocusedTransform along visited paths under node and link budgets.",
		DistinctSet: "cut",
		Assumptions: []string{
			"the oracle is the same code's unrestricted run; selector semantics themselves are C07 (not claimed)",
			"each control is applied on its own, without a preloader, as the property states",
			"SkipMe and LinkVisitOnlyOnce expectations are derived only from W0 that completed without error (a pruned subtree could otherwise hide the error that ended W0)",
			"start paths are first occurrences of a visited path",
			"LinkVisitOnlyOnce expectation learns seen links only from loads that are retained",
			"the selector builder, LinkSystem.Load and memstore are used as instruments",
		},
		Components: map[string]string{
			"traversal (walk.go, fns.go, common.go), traversal/selector, selector builder, linking, codecs, memstore": "real",
			"block streams / loader": "stub: simstore observes every block open, chunks reads, returns traversal.SkipMe when told",
			"goroutine scheduling":   "stub: single walker task under the seeded scheduler",
		},
		QuickUnits: 2500, ThoroughUnits: 150000, QuickSecs: 240, ThoroughSecs: 1200,
		ProbeKeys: []string{"probe.package_level_walk", "probe.package_level_transform", "probe.package_level_focus", "probe.adl_reifier_invoked", "probe.walk_repeated_with_same_config", "probe.walklocal_visitor_skipme_cut", "probe.focus_nodebudget_cut", "probe.focus_linkbudget_cut", "probe.transform_once_cut", "probe.transform_linkbudget_cut", "probe.transform_skip_cut", "probe.budget_cut_mid_block", "probe.linkbudget_cut", "probe.startat_inside_linked_block", "probe.startat_skipped_load", "probe.once_pruned", "probe.skipme_pruned", "probe.resume_concat_checked", "probe.w0_ended_in_error", "probe.repeated_link", "probe.matching_walk", "probe.transform_budget_cut", "probe.walklocal_budget_cut"},
		EventsKey: "events",
	}
}

type ev struct {
	K      byte // 'v' visit, 'l' load
	Segs   []string
	Path   string
	Reason byte
	AV     string
	Link   string
	P      datamodel.Path
}

func (e ev) String() string {
	if e.K == 'l' {
		return fmt.Sprintf("load(%q,…%x)", e.Path, tail(e.Link))
	}
	return fmt.Sprintf("visit(%q,%c,%s)", e.Path, e.Reason, e.AV)
}

func tail(s string) string {
	if len(s) > 4 {
		return s[len(s)-4:]
	}
	return s
}

func segsOf(p datamodel.Path) []string {
	var out []string
	for _, s := range p.Segments() {
		out = append(out, s.String())
	}
	return out
}

func hasPrefix(segs, pre []string) bool {
	if len(pre) > len(segs) {
		return false
	}
	for i := range pre {
		if segs[i] != pre[i] {
			return false
		}
	}
	return true
}

// subtreeEnd returns the index just past the events that lie under the load at index i:
// the following events whose path has the load's path as a prefix, up to (not including)
// the next load at exactly the same path -- a selector may list one child twice (a union of
// two field selectors naming the same field), and that second occurrence is a sibling, not a descendant.
func subtreeEnd(evs []ev, i int) int {
	x := evs[i]
	j := i + 1
	for j < len(evs) && hasPrefix(evs[j].Segs, x.Segs) {
		if evs[j].K == 'l' && len(evs[j].Segs) == len(x.Segs) {
			break
		}
		j++
	}
	return j
}

type walkRes struct {
	evs []ev
	err error
	pan string
}

func errClass(err error) string {
	if err == nil {
		return "ok"
	}
	var be *traversal.ErrBudgetExceeded
	if errors.As(err, &be) {
		l := ""
		if be.Link != nil {
			l = be.Link.Binary()
		}
		return fmt.Sprintf("budget:%s:%q:%x", be.BudgetKind, be.Path.String(), tail(l))
	}
	return "err:" + err.Error()
}

func render(evs []ev) string {
	var sb strings.Builder
	for i, e := range evs {
		if i > 0 {
			sb.WriteString(" ")
		}
		sb.WriteString(e.String())
	}
	return sb.String()
}

func sameEvents(a, b []ev) bool {
	if len(a) != len(b) {
		return false
	}
	for i := range a {
		if a[i].K != b[i].K || a[i].Path != b[i].Path || a[i].Reason != b[i].Reason || a[i].AV != b[i].AV || a[i].Link != b[i].Link {
			return false
		}
	}
	return true
}

func firstDiff(a, b []ev) string {
	for i := 0; i < len(a) || i < len(b); i++ {
		var x, y string = "<end>", "<end>"
		if i < len(a) {
			x = a[i].String()
		}
		if i < len(b) {
			y = b[i].String()
		}
		if x != y {
			return fmt.Sprintf("first difference at event %d: got %s, expected %s (got %d events, expected %d)", i, x, y, len(a), len(b))
		}
	}
	return "no difference"
}

// ---- selectors ----

// skipStore is a store that offers only Has and Get (the shape of the adapter stores):
// the link system reaches it through storage.GetStream's fallback. It answers
// traversal.SkipMe for the links it is told to skip.
type skipStore struct {
	inner *memstore.Store
	w     *world
}

func (s skipStore) Has(ctx context.Context, k string) (bool, error) { return s.inner.Has(ctx, k) }
func (s skipStore) Get(ctx context.Context, k string) ([]byte, error) {
	if s.w.skip[k] {
		return nil, traversal.SkipMe{}
	}
	return s.inner.Get(ctx, k)
}

type world struct {
	pkgLevel bool // walkWith goes through the package-level functions (nothing configured)

	s    *sim.Sim
	t    *sim.Tape
	lsys linking.LinkSystem
	seam *simstore.Seam
	g    *gen.Graph
	sel  selector.Selector
	cur  *[]ev
	skip map[string]bool

	o       *sim.Outcome
	fullCfg bool // walks get a Config with Ctx and chooser set (nothing for init to fill in)
	reuse   bool // ... and every walk is repeated with the same *Config object
	reused  int
}

const maxEvents = 320

var errTooLong = errors.New("harness: walk longer than the bound")

// walk runs one (possibly restricted) walk.
func (w *world) walk(matching bool, budget *traversal.Budget, startAt datamodel.Path, once bool, skip map[string]bool) walkRes {
	cfg := &traversal.Config{
		LinkSystem:        w.lsys,
		LinkVisitOnlyOnce: once,
		StartAtPath:       startAt,
		LinkTargetNodePrototypeChooser: func(datamodel.Link, linking.LinkContext) (datamodel.NodePrototype, error) {
			return basicnode.Prototype.Any, nil
		},
	}
	if w.fullCfg {
		cfg.Ctx = context.Background() // a Config that needs no defaults filled in: the walk works on the caller's object
	}
	var b1 *traversal.Budget
	if budget != nil {
		c := *budget
		b1 = &c
	}
	res := w.walkWith(cfg, matching, b1, skip)
	if w.fullCfg && w.reuse && res.pan == "" {
		// the caller's Config is what it was, and a second walk with the same object is the same walk
		if cfg.StartAtPath.String() != startAt.String() || cfg.LinkVisitOnlyOnce != once || cfg.Preloader != nil {
			w.o.Fail("config-changed-by-walk", "Config", "after a walk the caller's Config reads StartAtPath=%q LinkVisitOnlyOnce=%v; it was given StartAtPath=%q LinkVisitOnlyOnce=%v", cfg.StartAtPath.String(), cfg.LinkVisitOnlyOnce, startAt.String(), once)
		}
		var b2 *traversal.Budget
		if budget != nil {
			c := *budget
			b2 = &c
		}
		again := w.walkWith(cfg, matching, b2, skip)
		if !sameEvents(again.evs, res.evs) || errClass(again.err) != errClass(res.err) {
			w.o.Fail("config-reuse-differs", "Config", "a second walk with the same *Config object differs from the first: %s (outcomes %q then %q)", firstDiff(again.evs, res.evs), errClass(res.err), errClass(again.err))
		}
		w.reused++
	}
	if budget != nil && b1 != nil {
		*budget = *b1
	}
	return res
}

func (w *world) walkWith(cfg *traversal.Config, matching bool, budget *traversal.Budget, skip map[string]bool) walkRes {
	var res walkRes
	w.cur = &res.evs
	w.skip = skip
	prog := traversal.Progress{Cfg: cfg, Budget: budget}
	record := func(p traversal.Progress, n datamodel.Node, r traversal.VisitReason) error {
		if len(res.evs) > maxEvents {
			return errTooLong
		}
		av, err := model.FromNode(n)
		avs := ""
		if err != nil {
			avs = "unreadable:" + err.Error()
		} else {
			avs = fmt.Sprintf("%x", av.Hash())
		}
		res.evs = append(res.evs, ev{K: 'v', Segs: segsOf(p.Path), Path: p.Path.String(), Reason: byte(r), AV: avs, P: p.Path})
		w.s.Yield("visit")
		return nil
	}
	func() {
		defer func() {
			if r := recover(); r != nil {
				if fmt.Sprintf("%T", r) == "sim.stepCap" {
					panic(r)
				}
				res.pan = fmt.Sprintf("%v", r)
			}
		}()
		switch {
		case w.pkgLevel && matching:
			res.err = traversal.WalkMatching(w.g.RootNode, w.sel, func(p traversal.Progress, n datamodel.Node) error {
				return record(p, n, traversal.VisitReason_SelectionMatch)
			})
		case w.pkgLevel:
			res.err = traversal.WalkAdv(w.g.RootNode, w.sel, record)
		case matching:
			res.err = prog.WalkMatching(w.g.RootNode, w.sel, func(p traversal.Progress, n datamodel.Node) error {
				return record(p, n, traversal.VisitReason_SelectionMatch)
			})
		default:
			res.err = prog.WalkAdv(w.g.RootNode, w.sel, record)
		}
	}()
	return res
}

var ctlNames = []string{"none", "NodeBudget", "LinkBudget", "StartAtPath", "LinkVisitOnlyOnce", "SkipMe", "Resume", "TransformNodeBudget", "WalkLocalNodeBudget", "TransformLinkControls", "FocusBudgets"}

func (S) RunTape(t *sim.Tape, st *sim.Stats, keepLog bool) *sim.Outcome {
	o := &sim.Outcome{}
	s := sim.NewSim(t, sim.NewChanBaton())
	s.Log.Keep = keepLog
	s.MaxSteps = 2000000
	w := &world{s: s, t: t, o: o}
	w.fullCfg = t.Bool("cfg.fullconfig")
	w.reuse = t.Pct(40, "cfg.reuseconfig")
	ms := &memstore.Store{}
	w.lsys = cidlink.DefaultLinkSystem()
	basicStore := t.Bool("cfg.basicstore")
	if basicStore {
		w.lsys.SetReadStorage(skipStore{ms, w})
	} else {
		w.lsys.SetReadStorage(ms)
	}
	w.lsys.SetWriteStorage(ms)
	w.seam = &simstore.Seam{S: s, T: t}
	w.seam.Wrap(&w.lsys)
	g, err := gen.NewGraph(t, &w.lsys, 10, 6)
	if err != nil {
		panic("harness: graph generation failed: " + err.Error())
	}
	w.g = g
	// selector: regenerate until one compiles (bounded)
	ssb := builder.NewSelectorSpecBuilder(basicnode.Prototype.Any)
	var spec builder.SelectorSpec
	// an ADL the link system knows (the identity view: the node as it is): selectors may name it in
	// interpret-as clauses; reification is one more step of the walk, not one more visit
	gen.InterpretAs = ""
	if t.Pct(30, "cfg.knownreifier") {
		w.lsys.KnownReifiers = map[string]linking.NodeReifier{"asis": func(_ linking.LinkContext, n datamodel.Node, _ *linking.LinkSystem) (datamodel.Node, error) {
			st.Inc("probe.adl_reifier_invoked")
			return n, nil
		}}
		gen.InterpretAs = "asis"
	}
	gen.FieldHints = nil
	if g.Root.K == model.Map {
		gen.FieldHints = g.Root.Keys
	}
	gen.StopLinks = nil
	for _, l := range g.Links {
		if l != "" {
			gen.StopLinks = append(gen.StopLinks, gen.LinkFromBin(l))
		}
	}
	for try := 0; try < 5 && w.sel == nil; try++ {
		if t.Pct(50, "sel.everything") {
			spec = ssb.ExploreRecursive(selector.RecursionLimitNone(), ssb.ExploreUnion(ssb.Matcher(), ssb.ExploreAll(ssb.ExploreRecursiveEdge())))
		} else {
			spec = gen.Selector(t, ssb, 0, false, false)
		}
		if sel, err := spec.Selector(); err == nil {
			w.sel = sel
		}
	}
	if w.sel == nil {
		spec = ssb.ExploreAll(ssb.Matcher())
		w.sel, _ = spec.Selector()
	}
	chunk := []int{0, 1, 7}[t.Choice(3, "cfg.chunk")]
	w.seam.OnOpen = func(lc linking.LinkContext, l datamodel.Link) {
		*w.cur = append(*w.cur, ev{K: 'l', Segs: segsOf(lc.LinkPath), Path: lc.LinkPath.String(), Link: l.Binary(), P: lc.LinkPath})
	}
	w.seam.NextRead = func(l datamodel.Link) *simstore.ReadFault {
		if w.skip[l.Binary()] && !basicStore {
			st.Inc("fired.loader_declines_block(SkipMe)")
			return &simstore.ReadFault{Kind: "skip", SkipErr: traversal.SkipMe{}, Err2At: -1}
		}
		return &simstore.ReadFault{Err2At: -1, Chunk: chunk}
	}

	// ---- control (enumeration dimensions) ----
	ctl := t.Choice(len(ctlNames), "ctl.kind")
	pos := t.Choice(400, "ctl.pos")
	matching := t.Bool("ctl.matching")
	parsed := t.Bool("ctl.parsed")
	subset := t.Choice(1<<16, "ctl.subset")

	selDesc := ""
	if sn := spec.Node(); sn != nil {
		if v, err := model.FromNode(sn); err == nil {
			selDesc = v.String()
		}
	}
	s.Log.Add(fmt.Sprintf("CFG blocks=%d dangling=%d chunk=%d ctl=%s pos=%d matching=%v parsed=%v", len(g.Blocks), len(g.Dangling), chunk, ctlNames[ctl], pos, matching, parsed))
	s.Log.Add("SELECTOR " + selDesc)
	for i, b := range g.Blocks {
		s.Log.Add(fmt.Sprintf("BLOCK %d …%x %s", i, tail(g.Links[i]), b))
	}
	info := &base{}
	s.Go("walker", func() {
		// W0: the unrestricted advanced walk
		w0 := w.walk(false, nil, datamodel.Path{}, false, nil)
		if w0.pan != "" {
			// A selector that compiles and then panics when walked is C10's subject (not claimed
			// here): without a reference trace there is nothing for C15 to compare. Counted, not judged.
			info.TooLong = true
			st.Inc("runs.w0_panicked_outside_c15")
			return
		}
		if errors.Is(w0.err, errTooLong) {
			info.TooLong = true
			return
		}
		var visits, loads []int
		for i, e := range w0.evs {
			if e.K == 'v' {
				visits = append(visits, i)
			} else {
				loads = append(loads, i)
			}
		}
		info.V, info.K = len(visits), len(loads)
		links := map[string]int{}
		var linkList []string
		for _, i := range loads {
			if links[w0.evs[i].Link] == 0 {
				linkList = append(linkList, w0.evs[i].Link)
			}
			links[w0.evs[i].Link]++
			if links[w0.evs[i].Link] == 2 {
				st.Inc("probe.repeated_link")
			}
		}
		info.NLinks = len(linkList)
		info.Err0 = w0.err != nil
		if w0.err != nil {
			st.Inc("probe.w0_ended_in_error")
		}
		s.Log.Add("W0 " + render(w0.evs) + " => " + errClass(w0.err))
		filterM := func(evs []ev) []ev {
			if !matching {
				return evs
			}
			var out []ev
			for _, e := range evs {
				if e.K == 'l' || e.Reason == byte(traversal.VisitReason_SelectionMatch) {
					out = append(out, e)
				}
			}
			return out
		}
		sig := ctlNames[ctl]
		if matching {
			sig += "/WalkMatching"
			st.Inc("probe.matching_walk")
		} else {
			sig += "/WalkAdv"
		}
		// The property pins the KIND of error a budget produces (budget exceeded: node / link), not
		// the path or link it carries: those are compared softly (probe), the kind strictly.
		kindOf := func(c string) string {
			if strings.HasPrefix(c, "budget:node:") {
				return "budget:node"
			}
			if strings.HasPrefix(c, "budget:link:") {
				return "budget:link"
			}
			return c
		}
		check := func(got walkRes, wantEvs []ev, wantErr []string, what string) bool {
			if got.pan != "" {
				o.Fail("panic", sig, "%s: walk panicked: %s", what, got.pan)
				return false
			}
			okErr := false
			for _, we := range wantErr {
				if kindOf(errClass(got.err)) == kindOf(we) {
					okErr = true
					if errClass(got.err) != we {
						st.Inc("probe.budget_error_details_differ")
					}
				}
			}
			wantEvs = filterM(wantEvs)
			if !sameEvents(got.evs, wantEvs) {
				o.Fail("restricted-walk-differs", sig, "%s: %s\n got: %s => %s\nwant: %s => %v", what, firstDiff(got.evs, wantEvs), render(got.evs), errClass(got.err), render(wantEvs), wantErr)
				return false
			}
			if !okErr {
				o.Fail("restricted-walk-error", sig, "%s: events as expected but outcome is %q, expected one of %q", what, errClass(got.err), wantErr)
				return false
			}
			return true
		}
		cut := false
		switch ctl {
		case 0:
			if matching {
				got := w.walk(true, nil, datamodel.Path{}, false, nil)
				check(got, w0.evs, []string{errClass(w0.err)}, "unrestricted WalkMatching vs the match visits of WalkAdv")
			} else {
				// repeatability of the reference itself
				again := w.walk(false, nil, datamodel.Path{}, false, nil)
				check(again, w0.evs, []string{errClass(w0.err)}, "second unrestricted walk")
			}
			if info.K == 0 && w0.err == nil && gen.InterpretAs == "" {
				// no block is loaded and no reifier is named: the package-level functions (a walk with
				// nothing configured) are the same walk
				w.pkgLevel = true
				got := w.walkWith(nil, matching, nil, nil)
				w.pkgLevel = false
				check(got, w0.evs, []string{errClass(w0.err)}, "package-level walk function vs the configured walk")
				st.Inc("probe.package_level_walk")
			}
		case 1: // NodeBudget = pos
			N := pos
			if N > info.V+1 {
				return
			}
			got := w.walk(matching, &traversal.Budget{NodeBudget: int64(N), LinkBudget: 1 << 40}, datamodel.Path{}, false, nil)
			if N < info.V {
				cutAt := visits[N]
				want := w0.evs[:cutAt]
				check(got, want, []string{fmt.Sprintf("budget:node:%q:%x", w0.evs[cutAt].Path, "")}, fmt.Sprintf("NodeBudget=%d of %d visits", N, info.V))
				cut = true
				if cutAt > 0 && w0.evs[cutAt-1].K == 'v' && len(w0.evs[cutAt].Segs) > 0 {
					st.Inc("probe.budget_cut_mid_block")
				}
			} else if N == info.V && w0.err != nil {
				// W0 ended in an error raised on entering node V+1 or loading towards it; the budget check may come first
				var be *traversal.ErrBudgetExceeded
				if errors.As(got.err, &be) {
					check(got, w0.evs, []string{errClass(got.err)}, fmt.Sprintf("NodeBudget=%d (exactly V)", N))
				} else {
					check(got, w0.evs, []string{errClass(w0.err)}, fmt.Sprintf("NodeBudget=%d (exactly V)", N))
				}
			} else {
				check(got, w0.evs, []string{errClass(w0.err)}, fmt.Sprintf("NodeBudget=%d suffices for %d visits", N, info.V))
			}
		case 2: // LinkBudget = pos
			L := pos
			if L > info.K+1 {
				return
			}
			got := w.walk(matching, &traversal.Budget{NodeBudget: 1 << 40, LinkBudget: int64(L)}, datamodel.Path{}, false, nil)
			if L < info.K {
				cutAt := loads[L]
				e := w0.evs[cutAt]
				check(got, w0.evs[:cutAt], []string{fmt.Sprintf("budget:link:%q:%x", e.Path, tail(e.Link))}, fmt.Sprintf("LinkBudget=%d of %d loads", L, info.K))
				cut = true
				st.Inc("probe.linkbudget_cut")
			} else {
				check(got, w0.evs, []string{errClass(w0.err)}, fmt.Sprintf("LinkBudget=%d suffices for %d loads", L, info.K))
			}
		case 3: // StartAtPath = path of visit #pos
			if pos >= info.V {
				return
			}
			vi := visits[pos]
			e := w0.evs[vi]
			for _, j := range visits[:pos] {
				if w0.evs[j].Path == e.Path {
					return // not the first occurrence of this path
				}
			}
			start := e.P
			if parsed {
				okp := true
				for _, sg := range e.Segs {
					if sg == "" || strings.Contains(sg, "/") {
						okp = false
					}
				}
				if !okp {
					return
				}
				start = datamodel.ParsePath(e.Path)
			}
			var want []ev
			skippedLoad := false
			for i, x := range w0.evs {
				switch {
				case i >= vi:
					want = append(want, x)
				case x.K == 'l' && hasPrefix(e.Segs, x.Segs):
					want = append(want, x) // a block on the way to the start path
				case x.K == 'l':
					skippedLoad = true
				}
			}
			got := w.walk(matching, nil, start, false, nil)
			check(got, want, []string{errClass(w0.err)}, fmt.Sprintf("StartAtPath=%q (visit #%d)", e.Path, pos))
			if vi > 0 {
				cut = true
			}
			if skippedLoad {
				st.Inc("probe.startat_skipped_load")
			}
			for _, li := range loads {
				if li < vi && hasPrefix(e.Segs, w0.evs[li].Segs) {
					st.Inc("probe.startat_inside_linked_block")
					break
				}
			}
		case 4: // LinkVisitOnlyOnce
			if w0.err != nil {
				return
			}
			seen := map[string]bool{}
			var want []ev
			for i := 0; i < len(w0.evs); i++ {
				x := w0.evs[i]
				if x.K == 'l' {
					if seen[x.Link] {
						// drop this load and everything under it
						j := subtreeEnd(w0.evs, i)
						i = j - 1
						cut = true
						continue
					}
					seen[x.Link] = true
				}
				want = append(want, x)
			}
			got := w.walk(matching, nil, datamodel.Path{}, true, nil)
			check(got, want, []string{"ok"}, "LinkVisitOnlyOnce")
			loaded := map[string]int{}
			for _, x := range got.evs {
				if x.K == 'l' {
					loaded[x.Link]++
					if loaded[x.Link] == 2 {
						o.Fail("once-loaded-twice", sig, "LinkVisitOnlyOnce loaded link …%x twice", tail(x.Link))
					}
				}
			}
			if cut {
				st.Inc("probe.once_pruned")
			}
		case 5: // SkipMe
			if w0.err != nil || len(linkList) == 0 {
				return
			}
			skip := map[string]bool{}
			if pos < len(linkList) {
				skip[linkList[pos]] = true
			} else if pos < len(linkList)+6 {
				for i, l := range linkList {
					if subset>>(uint(i)%16)&1 == 1 {
						skip[l] = true
					}
				}
			} else {
				return
			}
			var want []ev
			for i := 0; i < len(w0.evs); i++ {
				x := w0.evs[i]
				want = append(want, x)
				if x.K == 'l' && skip[x.Link] {
					j := subtreeEnd(w0.evs, i)
					if j > i+1 {
						cut = true
					}
					i = j - 1
				}
			}
			got := w.walk(matching, nil, datamodel.Path{}, false, skip)
			check(got, want, []string{"ok"}, fmt.Sprintf("SkipMe for %d link(s)", len(skip)))
			if cut {
				st.Inc("probe.skipme_pruned")
			}
		case 8: // WalkLocal (no selector, no links) under a node budget: exactly the first N visits
			if matching {
				return
			}
			wl := func(b *traversal.Budget) (paths []string, err error, pan string) {
				func() {
					defer func() {
						if r := recover(); r != nil {
							if _, ok := r.(interface{ IsStepCap() }); ok {
								panic(r)
							}
							pan = fmt.Sprint(r)
						}
					}()
					err = traversal.Progress{Budget: b}.WalkLocal(w.g.RootNode, func(p traversal.Progress, n datamodel.Node) error {
						paths = append(paths, p.Path.String())
						return nil
					})
				}()
				return
			}
			l0, e0, p0 := wl(nil)
			if p0 != "" || e0 != nil {
				return
			}
			if parsed {
				// the visitor declines one node's children (SkipMe at the pos-th visit): exactly that subtree goes
				if len(l0) == 0 {
					return
				}
				at := pos % len(l0)
				var got []string
				var err error
				pan := ""
				func() {
					defer func() {
						if r := recover(); r != nil {
							if _, ok := r.(interface{ IsStepCap() }); ok {
								panic(r)
							}
							pan = fmt.Sprint(r)
						}
					}()
					i := 0
					err = traversal.Progress{}.WalkLocal(w.g.RootNode, func(p traversal.Progress, n datamodel.Node) error {
						got = append(got, p.Path.String())
						i++
						if i-1 == at {
							return traversal.SkipMe{}
						}
						return nil
					})
				}()
				var want []string
				for i, p := range l0 {
					if i > at && (l0[at] == "" || strings.HasPrefix(p, l0[at]+"/")) {
						continue // a later visit strictly below the declined node (parents are visited before children)
					}
					want = append(want, p)
				}
				if pan != "" || err != nil || strings.Join(got, "\x00") != strings.Join(want, "\x00") {
					o.Fail("restricted-walk-differs", sig, "WalkLocal whose visitor returns SkipMe at visit #%d (%q) visited %q (err=%v panic=%s); the unrestricted walk without what lies below that node is %q", at, l0[at], got, err, pan, want)
				}
				cut = len(want) < len(l0)
				if cut {
					st.Inc("probe.walklocal_visitor_skipme_cut")
				}
				return
			}
			N := pos
			if N > len(l0)+1 {
				return
			}
			got, err, pan := wl(&traversal.Budget{NodeBudget: int64(N), LinkBudget: 1 << 40})
			var be *traversal.ErrBudgetExceeded
			isBudget := errors.As(err, &be)
			want := l0
			if N < len(l0) {
				want = l0[:N]
			}
			switch {
			case pan != "":
				o.Fail("panic", sig, "WalkLocal with NodeBudget=%d panicked: %s", N, pan)
			case strings.Join(got, "\x00") != strings.Join(want, "\x00"):
				o.Fail("restricted-walk-differs", sig, "WalkLocal with NodeBudget=%d visited %q, the first %d visits of the unrestricted walk are %q", N, got, N, want)
			case N < len(l0) && !isBudget:
				o.Fail("restricted-walk-error", sig, "WalkLocal with NodeBudget=%d of %d visits ended with %v, not a budget error", N, len(l0), err)
			case N >= len(l0) && err != nil:
				o.Fail("restricted-walk-error", sig, "WalkLocal with a sufficient NodeBudget=%d (of %d visits) failed: %v", N, len(l0), err)
			}
			if N < len(l0) {
				cut = true
				st.Inc("probe.walklocal_budget_cut")
			}
		case 7: // the transforming walk under a node budget
			if w0.err != nil || matching {
				return
			}
			tw := func(b *traversal.Budget) (paths []string, err error, pan string) {
				cfg := &traversal.Config{LinkSystem: w.lsys, LinkTargetNodePrototypeChooser: func(datamodel.Link, linking.LinkContext) (datamodel.NodePrototype, error) {
					return basicnode.Prototype.Any, nil
				}}
				func() {
					defer func() {
						if r := recover(); r != nil {
							if _, ok := r.(interface{ IsStepCap() }); ok {
								panic(r)
							}
							pan = fmt.Sprint(r)
						}
					}()
					scratch := []ev{}
					w.cur = &scratch
					_, err = traversal.Progress{Cfg: cfg, Budget: b}.WalkTransforming(w.g.RootNode, w.sel, func(p traversal.Progress, n datamodel.Node) (datamodel.Node, error) {
						paths = append(paths, p.Path.String())
						return n, nil // identity: the walk goes on below
					})
				}()
				return
			}
			t0, err0, pan0 := tw(nil)
			if pan0 != "" || err0 != nil || len(t0) > 200 {
				return // no reference run to compare with
			}
			if pos == 0 && info.K == 0 && gen.InterpretAs == "" {
				var paths []string
				var perr error
				ppan := ""
				func() {
					defer func() {
						if r := recover(); r != nil {
							if _, ok := r.(interface{ IsStepCap() }); ok {
								panic(r)
							}
							ppan = fmt.Sprint(r)
						}
					}()
					_, perr = traversal.WalkTransforming(w.g.RootNode, w.sel, func(p traversal.Progress, n datamodel.Node) (datamodel.Node, error) {
						paths = append(paths, p.Path.String())
						return n, nil
					})
				}()
				if ppan != "" || perr != nil || strings.Join(paths, "\x00") != strings.Join(t0, "\x00") {
					o.Fail("restricted-walk-differs", sig, "the package-level WalkTransforming made callbacks %q (err=%v panic=%s); the configured one, over the same link-free graph, %q", paths, perr, ppan, t0)
				}
				st.Inc("probe.package_level_transform")
			}
			N := pos
			if N > info.V+1 {
				return
			}
			got, err, pan := tw(&traversal.Budget{NodeBudget: int64(N), LinkBudget: 1 << 40})
			var be *traversal.ErrBudgetExceeded
			isBudget := errors.As(err, &be)
			switch {
			case pan != "":
				o.Fail("panic", sig, "WalkTransforming with NodeBudget=%d panicked: %s", N, pan)
			case len(got) > len(t0) || strings.Join(got, "\x00") != strings.Join(t0[:len(got)], "\x00"):
				o.Fail("restricted-walk-differs", sig, "WalkTransforming with NodeBudget=%d handed its callback %q, which is not a prefix of the unrestricted run's %q", N, got, t0)
			case err == nil && len(got) != len(t0):
				o.Fail("restricted-walk-differs", sig, "WalkTransforming with NodeBudget=%d returned no error but made %d of %d callbacks", N, len(got), len(t0))
			case err != nil && !isBudget:
				o.Fail("restricted-walk-error", sig, "WalkTransforming with NodeBudget=%d failed with %v (the unrestricted run succeeds)", N, err)
			case N < len(t0) && err == nil:
				// every callback is for a node the walk entered: fewer nodes than callbacks cannot suffice
				o.Fail("restricted-walk-error", sig, "WalkTransforming made %d callbacks under NodeBudget=%d and reported no budget error", len(got), N)
			case N < len(t0) && len(got) > N:
				o.Fail("restricted-walk-differs", sig, "WalkTransforming made %d callbacks under NodeBudget=%d", len(got), N)
			case hasExplicitInterests(spec.Node()):
				// a union of field / index / range clauses naming one child twice makes the read-only walk
				// visit it twice, the transforming walk once: the counts below compare like with like only
				// where both walks go through the children as the node has them
			case N < info.V && err == nil:
				// the transforming walk enters the nodes the read-only walk visits (every one of them
				// counts against the budget, matched or not)
				o.Fail("restricted-walk-error", sig, "WalkTransforming finished without a budget error under NodeBudget=%d; the walk enters %d nodes", N, info.V)
			case N >= info.V && err != nil:
				o.Fail("restricted-walk-error", sig, "WalkTransforming with a sufficient NodeBudget=%d (the walk enters %d nodes) ended with %v", N, info.V, err)
			}
			if err != nil {
				cut = true
				st.Inc("probe.transform_budget_cut")
			}
		case 9: // the transforming walk under the link controls: visit-once, link budget, a loader that skips
			if w0.err != nil || matching {
				return
			}
			tw := func(once bool, b *traversal.Budget, skip map[string]bool) (paths []string, loads []ev, err error, pan string) {
				cfg := &traversal.Config{LinkSystem: w.lsys, LinkVisitOnlyOnce: once, LinkTargetNodePrototypeChooser: func(datamodel.Link, linking.LinkContext) (datamodel.NodePrototype, error) {
					return basicnode.Prototype.Any, nil
				}}
				scratch := []ev{}
				func() {
					defer func() {
						if r := recover(); r != nil {
							if _, ok := r.(interface{ IsStepCap() }); ok {
								panic(r)
							}
							pan = fmt.Sprint(r)
						}
					}()
					w.cur = &scratch
					w.skip = skip
					_, err = traversal.Progress{Cfg: cfg, Budget: b}.WalkTransforming(w.g.RootNode, w.sel, func(p traversal.Progress, n datamodel.Node) (datamodel.Node, error) {
						paths = append(paths, p.Path.String())
						w.s.Yield("callback")
						return n, nil
					})
				}()
				w.skip = nil
				for _, e := range scratch {
					if e.K == 'l' {
						loads = append(loads, e)
					}
				}
				return
			}
			t0, l0, err0, pan0 := tw(false, nil, nil)
			if pan0 != "" || err0 != nil || len(t0) > 300 || basicStore {
				return // no reference run to compare with
			}
			isSubseq := func(a, b []string) bool {
				j := 0
				for _, x := range a {
					for j < len(b) && b[j] != x {
						j++
					}
					if j == len(b) {
						return false
					}
					j++
				}
				return true
			}
			switch {
			case pos == 0:
				got, loads, err, pan := tw(true, nil, nil)
				seen := map[string]bool{}
				for _, e := range loads {
					if seen[e.Link] {
						o.Fail("once-loaded-twice", sig, "WalkTransforming with LinkVisitOnlyOnce loaded link …%x more than once (loads %v)", tail(e.Link), render(loads))
						break
					}
					seen[e.Link] = true
				}
				switch {
				case pan != "" || err != nil:
					o.Fail("restricted-walk-error", sig, "WalkTransforming with LinkVisitOnlyOnce ended with err=%v panic=%s (the unrestricted run succeeds)", err, pan)
				case !isSubseq(got, t0):
					o.Fail("restricted-walk-differs", sig, "WalkTransforming with LinkVisitOnlyOnce made callbacks %q, not a subsequence of the unrestricted run's %q", got, t0)
				}
				if len(loads) < len(l0) {
					cut = true
					st.Inc("probe.transform_once_cut")
				}
			case pos-1 <= len(l0)+1:
				K := pos - 1
				got, loads, err, pan := tw(false, &traversal.Budget{NodeBudget: 1 << 40, LinkBudget: int64(K)}, nil)
				var be *traversal.ErrBudgetExceeded
				isBudget := errors.As(err, &be)
				wantLoads := l0
				if K < len(l0) {
					wantLoads = l0[:K]
				}
				switch {
				case pan != "":
					o.Fail("panic", sig, "WalkTransforming with LinkBudget=%d panicked: %s", K, pan)
				case !sameEvents(loads, wantLoads):
					o.Fail("restricted-walk-differs", sig, "WalkTransforming with LinkBudget=%d loaded %v, the first %d loads of the unrestricted run are %v", K, render(loads), K, render(wantLoads))
				case len(got) > len(t0) || strings.Join(got, "\x00") != strings.Join(t0[:len(got)], "\x00"):
					o.Fail("restricted-walk-differs", sig, "WalkTransforming with LinkBudget=%d made callbacks %q, not a prefix of the unrestricted run's %q", K, got, t0)
				case K < len(l0) && !isBudget:
					o.Fail("restricted-walk-error", sig, "WalkTransforming with LinkBudget=%d of %d loads ended with %v, not a budget error", K, len(l0), err)
				case K >= len(l0) && (err != nil || len(got) != len(t0)):
					o.Fail("restricted-walk-error", sig, "WalkTransforming with a sufficient LinkBudget=%d (of %d loads) ended with %v after %d of %d callbacks", K, len(l0), err, len(got), len(t0))
				}
				if K < len(l0) {
					cut = true
					st.Inc("probe.transform_linkbudget_cut")
				}
			default:
				if len(l0) == 0 {
					return
				}
				victim := l0[(pos-len(l0)-3)%len(l0)]
				got, loads, err, pan := tw(false, nil, map[string]bool{victim.Link: true})
				// the loader declines every block behind that link: no callback at or below any place it sits
				var under []string
				for _, e := range l0 {
					if e.Link == victim.Link {
						under = append(under, e.Path)
					}
				}
				var want []string
				for _, p := range t0 {
					drop := false
					for _, u := range under {
						if p == u || strings.HasPrefix(p, u+"/") {
							drop = true
						}
					}
					if !drop {
						want = append(want, p)
					}
				}
				switch {
				case pan != "" || err != nil:
					o.Fail("restricted-walk-error", sig, "WalkTransforming with a loader that skips link …%x ended with err=%v panic=%s", tail(victim.Link), err, pan)
				case strings.Join(got, "\x00") != strings.Join(want, "\x00"):
					o.Fail("restricted-walk-differs", sig, "WalkTransforming with a loader that skips link …%x (at %q) made callbacks %q; the unrestricted run without that block's subtree is %q", tail(victim.Link), under, got, want)
				}
				_ = loads
				cut = true
				st.Inc("probe.transform_skip_cut")
			}
		case 10: // Focus / Get / FocusedTransform along a visited path, under a node or link budget
			if w0.err != nil || matching || len(visits) == 0 || basicStore {
				return
			}
			target := w0.evs[visits[pos%len(visits)]].P
			nseg := target.Len()
			type fres struct {
				av    string
				loads []ev
				err   error
				pan   string
			}
			run := func(op int, b *traversal.Budget) (r fres) {
				cfg := &traversal.Config{LinkSystem: w.lsys, LinkTargetNodePrototypeChooser: func(datamodel.Link, linking.LinkContext) (datamodel.NodePrototype, error) {
					return basicnode.Prototype.Any, nil
				}}
				scratch := []ev{}
				w.cur = &scratch
				avOf := func(n datamodel.Node) string {
					if n == nil {
						return "nil"
					}
					v, err := model.FromNode(n)
					if err != nil {
						return "unreadable:" + err.Error()
					}
					return fmt.Sprintf("%x", v.Hash())
				}
				func() {
					defer func() {
						if x := recover(); x != nil {
							if _, ok := x.(interface{ IsStepCap() }); ok {
								panic(x)
							}
							r.pan = fmt.Sprint(x)
						}
					}()
					prog := traversal.Progress{Cfg: cfg, Budget: b}
					switch op {
					case 0:
						var n datamodel.Node
						n, r.err = prog.Get(w.g.RootNode, target)
						if r.err == nil {
							r.av = avOf(n)
						}
					case 1:
						r.err = prog.Focus(w.g.RootNode, target, func(p traversal.Progress, n datamodel.Node) error {
							r.av = avOf(n) + "@" + p.Path.String()
							w.s.Yield("visit")
							return nil
						})
					case 2:
						// an identity transform at the target: what the callback is handed, nothing is written
						_, r.err = prog.FocusedTransform(w.g.RootNode, target, func(p traversal.Progress, n datamodel.Node) (datamodel.Node, error) {
							r.av = avOf(n) + "@" + p.Path.String()
							w.s.Yield("callback")
							return n, nil
						}, false)
					}
				}()
				for _, e := range scratch {
					if e.K == 'l' {
						r.loads = append(r.loads, e)
					}
				}
				return
			}
			opNames := []string{"Get", "Focus", "FocusedTransform(identity)"}
			for op := 0; op < 3; op++ {
				r0 := run(op, nil)
				if r0.pan != "" || r0.err != nil {
					continue // no reference run (what a visited path resolves to is C14's matter)
				}
				if subset == 0 && len(r0.loads) == 0 {
					// no block on the way: the package-level function (nothing configured) is the same call
					pav, perr, ppan := "", error(nil), ""
					func() {
						defer func() {
							if x := recover(); x != nil {
								if _, ok := x.(interface{ IsStepCap() }); ok {
									panic(x)
								}
								ppan = fmt.Sprint(x)
							}
						}()
						avOf := func(n datamodel.Node) string {
							if n == nil {
								return "nil"
							}
							v, err := model.FromNode(n)
							if err != nil {
								return "unreadable:" + err.Error()
							}
							return fmt.Sprintf("%x", v.Hash())
						}
						switch op {
						case 0:
							var n datamodel.Node
							if n, perr = traversal.Get(w.g.RootNode, target); perr == nil {
								pav = avOf(n)
							}
						case 1:
							perr = traversal.Focus(w.g.RootNode, target, func(p traversal.Progress, n datamodel.Node) error {
								pav = avOf(n) + "@" + p.Path.String()
								return nil
							})
						case 2:
							_, perr = traversal.FocusedTransform(w.g.RootNode, target, func(p traversal.Progress, n datamodel.Node) (datamodel.Node, error) {
								pav = avOf(n) + "@" + p.Path.String()
								return n, nil
							}, false)
						}
					}()
					if ppan != "" || perr != nil || pav != r0.av {
						o.Fail("restricted-walk-differs", sig, "the package-level %s(%q) gave %s (err=%v panic=%s); the configured call, which loads no block, gave %s", opNames[op], target.String(), pav, perr, ppan, r0.av)
					}
					st.Inc("probe.package_level_focus")
				}
				var be *traversal.ErrBudgetExceeded
				if parsed {
					K := subset % 8
					r := run(op, &traversal.Budget{NodeBudget: 1 << 40, LinkBudget: int64(K)})
					wantLoads := r0.loads
					if K < len(r0.loads) {
						wantLoads = r0.loads[:K]
					}
					switch {
					case r.pan != "":
						o.Fail("panic", sig, "%s(%q) with LinkBudget=%d panicked: %s", opNames[op], target.String(), K, r.pan)
					case !sameEvents(r.loads, wantLoads):
						o.Fail("restricted-walk-differs", sig, "%s(%q) with LinkBudget=%d loaded %s; the first %d loads of the unrestricted call are %s", opNames[op], target.String(), K, render(r.loads), K, render(wantLoads))
					case K < len(r0.loads) && !errors.As(r.err, &be):
						o.Fail("restricted-walk-error", sig, "%s(%q) needs %d loads; with LinkBudget=%d it ended with %v, not a budget error", opNames[op], target.String(), len(r0.loads), K, r.err)
					case K >= len(r0.loads) && (r.err != nil || r.av != r0.av):
						o.Fail("restricted-walk-error", sig, "%s(%q) needs %d loads; with the sufficient LinkBudget=%d it gave err=%v result %s (unrestricted: %s)", opNames[op], target.String(), len(r0.loads), K, r.err, r.av, r0.av)
					}
					if K < len(r0.loads) {
						cut = true
						st.Inc("probe.focus_linkbudget_cut")
					}
				} else {
					N := subset % 12
					r := run(op, &traversal.Budget{NodeBudget: int64(N), LinkBudget: 1 << 40})
					switch {
					case r.pan != "":
						o.Fail("panic", sig, "%s(%q) with NodeBudget=%d panicked: %s", opNames[op], target.String(), N, r.pan)
					case r.err != nil && !errors.As(r.err, &be):
						o.Fail("restricted-walk-error", sig, "%s(%q) with NodeBudget=%d ended with %v (the unrestricted call succeeds)", opNames[op], target.String(), N, r.err)
					case r.err == nil && r.av != r0.av:
						o.Fail("restricted-walk-differs", sig, "%s(%q) with NodeBudget=%d gave %s, unrestricted %s", opNames[op], target.String(), N, r.av, r0.av)
					case r.err != nil && N >= nseg+1+len(r0.loads):
						// the path names nseg+1 nodes (root included) and every crossed link adds the root of a loaded
						// block (whether a link and its block count once or twice is the implementation's choice): a
						// budget of that many suffices
						o.Fail("restricted-walk-error", sig, "%s(%q) steps through at most %d nodes; with NodeBudget=%d it ended with %v", opNames[op], target.String(), nseg+1+len(r0.loads), N, r.err)
					case r.err == nil && N == 0 && nseg > 0:
						o.Fail("restricted-walk-error", sig, "%s(%q) succeeded with NodeBudget=0", opNames[op], target.String())
					case r.err != nil && !sameEvents(r.loads, r0.loads[:min(len(r.loads), len(r0.loads))]):
						o.Fail("restricted-walk-differs", sig, "%s(%q) with NodeBudget=%d loaded %s, not a prefix of the unrestricted call's %s", opNames[op], target.String(), N, render(r.loads), render(r0.loads))
					}
					if r.err != nil {
						cut = true
						st.Inc("probe.focus_nodebudget_cut")
					}
				}
			}
		case 6: // budget N, then resume at the path the error carries
			N := pos
			if N >= info.V || matching {
				return
			}
			uniq := map[string]bool{}
			for _, i := range visits {
				if uniq[w0.evs[i].Path] {
					return
				}
				uniq[w0.evs[i].Path] = true
			}
			first := w.walk(false, &traversal.Budget{NodeBudget: int64(N), LinkBudget: 1 << 40}, datamodel.Path{}, false, nil)
			var be *traversal.ErrBudgetExceeded
			if !errors.As(first.err, &be) {
				o.Fail("restricted-walk-error", sig, "NodeBudget=%d of %d visits did not end in a budget error: %v", N, info.V, first.err)
				return
			}
			second := w.walk(false, nil, be.Path, false, nil)
			var vs []ev
			for _, x := range append(append([]ev(nil), first.evs...), second.evs...) {
				if x.K == 'v' {
					vs = append(vs, x)
				}
			}
			var want []ev
			for _, i := range visits {
				want = append(want, w0.evs[i])
			}
			if !sameEvents(vs, want) || errClass(second.err) != errClass(w0.err) {
				o.Fail("resume-not-exactly-once", sig, "budget %d then resume at %q: %s; second walk outcome %q, W0 outcome %q", N, be.Path.String(), firstDiff(vs, want), errClass(second.err), errClass(w0.err))
			}
			cut = true
			st.Inc("probe.resume_concat_checked")
		}
		if cut {
			st.Distinct("cut", sim.HashString(fmt.Sprintf("%s|%d|%v|%v|%d|%d|%s", sig, pos, parsed, info.Err0, info.V, info.K, render(w0.evs))))
		}
		if ctl == 0 && !matching {
			var evs []string
			for i, e := range w0.evs {
				if i < 30 {
					evs = append(evs, e.String())
				}
			}
			st.Sample(map[string]interface{}{"selector": selDesc, "blocks": len(g.Blocks), "W0": evs, "outcome": errClass(w0.err)})
		}
	})
	s.Run()
	for _, tk := range s.Finished {
		if tk.Panic != nil {
			o.Fail("panic", "harness-task", "walker task panicked: %v\n%s", tk.Panic, tk.Stack)
		}
	}
	o.Aux = info
	o.Events, o.Capped, o.LogHash, o.Log = s.Seq, s.Capped, s.Log.H, s.Log.Lines
	st.Inc("runs")
	st.Add("probe.walk_repeated_with_same_config", int64(w.reused))
	st.Inc("runs.ctl." + ctlNames[ctl])
	st.Add("events", int64(s.Seq))
	if info.TooLong {
		st.Inc("runs.w0_too_long")
	}
	return o
}

type base struct {
	V, K, NLinks int
	Err0         bool
	TooLong      bool
}

func (S) Unit(u *scen.Unit) {
	b0 := u.Exec(map[string]int{"ctl.kind": 0, "ctl.matching": 0})
	bi, _ := b0.Aux.(*base)
	if bi == nil || bi.TooLong || len(b0.Viol) > 0 {
		return
	}
	u.Exec(map[string]int{"ctl.kind": 0, "ctl.matching": 1})
	u.St.Add("enum.w0_visits", int64(bi.V))
	u.St.Add("enum.w0_loads", int64(bi.K))
	for m := 0; m < 2; m++ {
		for n := 0; n <= bi.V+1; n++ {
			u.Exec(map[string]int{"ctl.kind": 1, "ctl.pos": n, "ctl.matching": m})
			u.St.Inc("enum.nodebudget")
		}
		for l := 0; l <= bi.K+1; l++ {
			u.Exec(map[string]int{"ctl.kind": 2, "ctl.pos": l, "ctl.matching": m})
			u.St.Inc("enum.linkbudget")
		}
		for i := 0; i < bi.V; i++ {
			for p := 0; p < 2; p++ {
				u.Exec(map[string]int{"ctl.kind": 3, "ctl.pos": i, "ctl.matching": m, "ctl.parsed": p})
				u.St.Inc("enum.startat")
			}
		}
		u.Exec(map[string]int{"ctl.kind": 4, "ctl.matching": m})
		u.St.Inc("enum.once")
		for i := 0; i < bi.NLinks+6 && bi.NLinks > 0; i++ {
			u.Exec(map[string]int{"ctl.kind": 5, "ctl.pos": i, "ctl.matching": m, "ctl.subset": int(sim.SeedFor(int64(u.Seed), "subset", i) % (1 << 16))})
			u.St.Inc("enum.skipme")
		}
	}
	for n := 0; n < bi.V; n++ {
		u.Exec(map[string]int{"ctl.kind": 6, "ctl.pos": n, "ctl.matching": 0})
		u.St.Inc("enum.resume")
	}
	if !bi.Err0 {
		for n := 0; n <= bi.V+1 && n < 60; n++ {
			u.Exec(map[string]int{"ctl.kind": 7, "ctl.pos": n, "ctl.matching": 0})
			u.St.Inc("enum.transform_budget")
		}
	}
	for n := 0; n < 24; n++ {
		u.Exec(map[string]int{"ctl.kind": 8, "ctl.pos": n, "ctl.matching": 0, "ctl.parsed": 0})
		u.St.Inc("enum.walklocal_budget")
	}
	for n := 0; n < 16; n++ {
		u.Exec(map[string]int{"ctl.kind": 8, "ctl.pos": n, "ctl.matching": 0, "ctl.parsed": 1})
		u.St.Inc("enum.walklocal_visitor_skipme")
	}
	if !bi.Err0 && bi.V > 0 {
		// Focus / Get / FocusedTransform along seeded visited paths, every small node and link budget
		for k := 0; k < 4; k++ {
			at := int(sim.SeedFor(int64(u.Seed), "focus.at", k) % uint64(bi.V))
			for n := 0; n < 8; n++ {
				u.Exec(map[string]int{"ctl.kind": 10, "ctl.pos": at, "ctl.matching": 0, "ctl.parsed": 0, "ctl.subset": n})
				u.St.Inc("enum.focus_nodebudget")
			}
			for l := 0; l <= bi.K+1 && l < 6; l++ {
				u.Exec(map[string]int{"ctl.kind": 10, "ctl.pos": at, "ctl.matching": 0, "ctl.parsed": 1, "ctl.subset": l})
				u.St.Inc("enum.focus_linkbudget")
			}
		}
	}
	if !bi.Err0 && bi.K > 0 {
		// link controls under the transforming walk: visit-once, every link budget, every link skipped
		for n := 0; n <= 2*bi.K+4 && n < 40; n++ {
			u.Exec(map[string]int{"ctl.kind": 9, "ctl.pos": n, "ctl.matching": 0})
			u.St.Inc("enum.transform_link_controls")
		}
	}
}

// hasExplicitInterests: does the selector name children (fields, an index, a range) anywhere?
func hasExplicitInterests(n datamodel.Node) bool {
	switch n.Kind() {
	case datamodel.Kind_Map:
		for it := n.MapIterator(); !it.Done(); {
			k, v, err := it.Next()
			if err != nil {
				return true
			}
			if ks, _ := k.AsString(); ks == "f" || ks == "i" || ks == "r" {
				return true
			}
			if hasExplicitInterests(v) {
				return true
			}
		}
	case datamodel.Kind_List:
		for it := n.ListIterator(); !it.Done(); {
			_, v, err := it.Next()
			if err != nil || hasExplicitInterests(v) {
				return true
			}
		}
	}
	return false
}

func min(a, b int) int {
	if a < b {
		return a
	}
	return b
}
