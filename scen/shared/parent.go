package shared

import (
	"bufio"
	"bytes"
	"encoding/json"
	"fmt"
	"os"
	"os/exec"
	"path/filepath"
	"regexp"
	"sort"
	"strings"
	"sync/atomic"
	"time"

	"verif/scen"
	"verif/sim"
)

type S struct{}

func (S) ID() string    { return "C20" }
func (S) Level() string { return "exploration" }

func (S) Info() scen.Info {
	return scen.Info{
		Rule: "unit = one -race child process: shared objects (generic tree, reflection-bound struct with type and representation views, generated-code node, compiled selector, type system, shared prototype, default multicodec registry, link system over a read-only store (memstore or the filesystem store on real files), one *traversal.Config) built on the main goroutine, then 2-6 tasks of 3-10 seeded read-only operations each (45 operation kinds, including all four load functions, encoding into a writer that fails, decoding through shared prototypes, and transforms that read shared nodes) interleaved by the blind-baton scheduler at function-entry yields inside the library; three profiles (fully configured / Config relying on defaults / inferred schemas as well). " +
			"distinct_nontrivial counts distinct hash(profile, per-task operation lists, interleaving hash) over runs with at least 2 scheduler switches between tasks. Later additions: LinkVisitOnlyOnce on the shared Config, a shared stream-backed bytes node, shared nodes of the vocabulary shapes of C19, shared seeded selectors.",
		DistinctSet: "schedule",
		Assumptions: []string{
			"serialised schedules only: sufficient for happens-before race DETECTION (the baton is invisible to the detector, so every conflicting access pair between tasks is reported wherever it falls in the schedule), but weak-memory reorderings of racy code are not executed",
			"the Go race detector (ThreadSanitizer runtime) is the instrument for oracle 1; its bounded shadow history can miss a pair",
			"a race report whose stacks hold no go-ipld-prime frame is harness trouble (exit 2), never a violation",
			"the reference for 'same results as running alone' is the same operation list executed alone after the concurrent phase in the same process",
		},
		Components: map[string]string{
			"datamodel, node/basicnode, node/bindnode, node/gendemo, schema, traversal, traversal/selector, linking, linking/cid, multicodec, codec/*, printer, storage/memstore": "real, with function-entry yields inserted by the build overlay (no source change)",
			"goroutine scheduling": "stub: seeded scheduler, blind baton (raw pipe syscalls)",
			"race detection":       "real: Go race detector in the child process",
		},
		QuickUnits: 8000, ThoroughUnits: 600000, QuickSecs: 240, ThoroughSecs: 1500,
		ProbeKeys:    []string{"probe.profile0", "probe.profile1", "probe.profile2", "probe.switches_ge_10", "probe.walk_vs_walk", "probe.wrap_vs_wrap", "probe.backend_fsstore", "probe.backend_memstore"},
		EventsKey:    "events",
		ShrinkBudget: 30,
	}
}

var childN int64

var frameRe = regexp.MustCompile(`^  (\S+)\(`)

type raceReport struct {
	text string
	libA string // first go-ipld-prime frame of the first access stack
	libB string
	lib  bool
}

const libPrefix = "github.com/ipld/go-ipld-prime/"

// parseRaces splits the race detector's log into reports and finds library frames.
func parseRaces(log string) []raceReport {
	var out []raceReport
	parts := strings.Split(log, "==================")
	for _, p := range parts {
		if !strings.Contains(p, "WARNING: DATA RACE") {
			continue
		}
		r := raceReport{text: strings.TrimSpace(p)}
		section := -1
		sc := bufio.NewScanner(strings.NewReader(p))
		sc.Buffer(make([]byte, 1<<20), 1<<20)
		var firstLib [2]string
		for sc.Scan() {
			line := sc.Text()
			switch {
			case strings.HasPrefix(line, "Write at ") || strings.HasPrefix(line, "Read at ") || strings.HasPrefix(line, "Atomic "):
				section = 0
			case strings.HasPrefix(line, "Previous "):
				section = 1
			case strings.HasPrefix(line, "Goroutine "):
				section = 2
			}
			if section < 0 || section > 1 {
				continue
			}
			if m := frameRe.FindStringSubmatch(line); m != nil {
				fn := m[1]
				if strings.HasPrefix(fn, libPrefix) && !strings.Contains(fn, "/zzsimhook.") {
					if firstLib[section] == "" {
						firstLib[section] = strings.TrimPrefix(fn, libPrefix)
					}
				}
			}
		}
		r.libA, r.libB = firstLib[0], firstLib[1]
		r.lib = r.libA != "" || r.libB != ""
		out = append(out, r)
	}
	return out
}

func (S) RunTape(t *sim.Tape, st *sim.Stats, keepLog bool) *sim.Outcome {
	o := &sim.Outcome{}
	bin := os.Getenv("VERIF_RACE_BIN")
	if bin == "" {
		panic("VERIF_RACE_BIN not set (run through run_check.sh)")
	}
	dir := filepath.Join(os.TempDir(), fmt.Sprintf("verif-c20-%d-%d", os.Getpid(), atomic.AddInt64(&childN, 1)))
	if shm, err := os.Stat("/dev/shm"); err == nil && shm.IsDir() {
		dir = filepath.Join("/dev/shm", filepath.Base(dir))
	}
	os.MkdirAll(dir, 0777)
	defer os.RemoveAll(dir)
	in := childIn{Seed: t.Seed, Forced: t.Forced, Replay: t.ReplayEntries()}
	if in.Replay != nil && len(in.Replay) == 0 {
		in.Replay = []sim.Entry{}
	}
	js, _ := json.Marshal(in)
	inF, outF := filepath.Join(dir, "in.json"), filepath.Join(dir, "out.json")
	os.WriteFile(inF, js, 0666)
	cmd := exec.Command(bin, "--c20child", inF, outF)
	cmd.Env = append(os.Environ(), "GORACE=halt_on_error=0 exitcode=0 atexit_sleep_ms=0 log_path="+filepath.Join(dir, "race"), "GOMAXPROCS=1", "GOGC=off")
	var stderr bytes.Buffer
	cmd.Stderr = &stderr
	cmd.Stdout = &stderr
	done := make(chan error, 1)
	if err := cmd.Start(); err != nil {
		panic("cannot start race child: " + err.Error())
	}
	go func() { done <- cmd.Wait() }()
	select {
	case err := <-done:
		if err != nil {
			panic(fmt.Sprintf("race child failed: %v: %s", err, tailStr(stderr.String(), 800)))
		}
	case <-time.After(120 * time.Second):
		cmd.Process.Kill()
		panic("race child timed out")
	}
	raw, err := os.ReadFile(outF)
	if err != nil {
		panic("race child produced no result: " + tailStr(stderr.String(), 800))
	}
	var cr ChildResult
	if err := json.Unmarshal(raw, &cr); err != nil {
		panic(err)
	}
	t.Rec = cr.Tape
	var raceLog strings.Builder
	if ms, _ := filepath.Glob(filepath.Join(dir, "race.*")); len(ms) > 0 {
		sort.Strings(ms)
		for _, m := range ms {
			b, _ := os.ReadFile(m)
			raceLog.Write(b)
		}
	}
	reports := parseRaces(raceLog.String())
	log := sim.NewLog()
	log.Keep = keepLog
	log.Add(fmt.Sprintf("CFG profile=%d tasks=%d switches=%d events=%d", cr.Profile, len(cr.Tasks), cr.Switches, cr.Events))
	for i, tk := range cr.Tasks {
		log.Add(fmt.Sprintf("TASK %d %s", i, strings.Join(tk, ", ")))
	}
	log.Add(fmt.Sprintf("INTERLEAVING %x", cr.IHash))
	seen := map[string]bool{}
	for _, r := range reports {
		if !r.lib {
			panic("race report without a go-ipld-prime frame (harness bug):\n" + tailStr(r.text, 3000))
		}
		a, b := r.libA, r.libB
		if a > b {
			a, b = b, a
		}
		sig := fmt.Sprintf("race %s <-> %s", a, b)
		if seen[sig] {
			continue
		}
		seen[sig] = true
		log.Add("RACE " + sig)
		o.Fail("data-race", sig, "profile %d: the race detector reports conflicting unsynchronised accesses between two tasks doing read-only operations:\n%s", cr.Profile, tailStr(r.text, 2500))
	}
	for _, p := range cr.Panics {
		first := p
		if i := strings.IndexByte(first, '\n'); i > 0 {
			first = first[:i]
		}
		if i := strings.Index(first, ": "); i > 0 {
			first = first[i+2:]
		}
		log.Add("PANIC " + first)
		if strings.HasPrefix(first, "deadlock:") {
			o.Fail("deadlock", "tasks wait forever for a lock", "profile %d: read-only operations on shared objects left every remaining task waiting for a lock nobody releases: %s", cr.Profile, first)
			continue
		}
		o.Fail("panic", "panic: "+normalisePanic(first), "profile %d: a task panicked during a read-only operation on shared objects: %s", cr.Profile, p)
	}
	for _, m := range cr.Mismatch {
		op := m
		if i := strings.IndexByte(op, ' '); i > 0 {
			op = op[:i]
		}
		log.Add("MISMATCH " + m)
		o.Fail("result-differs-from-solo", op, "profile %d: %s", cr.Profile, m)
	}
	o.LogHash, o.Log, o.Events, o.Capped = log.H, log.Lines, cr.Events, cr.Capped
	st.Inc("runs")
	st.Inc(fmt.Sprintf("probe.profile%d", cr.Profile))
	st.Inc("probe.backend_" + cr.Backend)
	st.Add("events", int64(cr.Events))
	st.Add("switches", int64(cr.Switches))
	if cr.Switches >= 10 {
		st.Inc("probe.switches_ge_10")
	}
	for _, p := range cr.Pairs {
		st.Distinct("op_pairs", sim.HashString(p))
		if p == "walkadv|walkadv" || p == "walkadv|walkmatching" {
			st.Inc("probe.walk_vs_walk")
		}
		if p == "wrap-with-shared-type|wrap-with-shared-type" {
			st.Inc("probe.wrap_vs_wrap")
		}
	}
	if cr.Switches >= 2 {
		st.Distinct("schedule", sim.HashString(fmt.Sprintf("%d|%v|%x", cr.Profile, cr.Tasks, cr.IHash)))
	}
	st.Sample(map[string]interface{}{"profile": cr.Profile, "tasks": cr.Tasks, "switches": cr.Switches, "events": cr.Events, "race_reports": len(reports)})
	return o
}

var hexRe = regexp.MustCompile(`0x[0-9a-f]+`)

func normalisePanic(s string) string {
	s = hexRe.ReplaceAllString(s, "0x…")
	if len(s) > 80 {
		s = s[:80]
	}
	return s
}

func tailStr(s string, n int) string {
	if len(s) > n {
		return s[:n] + "…"
	}
	return s
}

func (S) Unit(u *scen.Unit) { u.Exec(nil) }
