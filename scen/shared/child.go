// Package shared decides C20: shared immutable objects are safe to use from
// many goroutines at once.
//
// One short-lived -race child process per run. The child builds the shared
// objects on its main goroutine, then runs 2-6 tasks under the blind-baton
// scheduler (strictly serialised by raw pipe syscalls the race detector cannot
// see, so the detector still treats the tasks as unordered) with yields at
// every function entry of the library (build overlay). Oracles: no race report
// with a go-ipld-prime frame, every task's results equal the same operations
// run alone afterwards, no panic.
package shared

import (
	"bytes"
	"context"
	"encoding/json"
	"fmt"
	cid "github.com/ipfs/go-cid"
	"github.com/ipld/go-ipld-prime/fluent/qp"
	mh "github.com/multiformats/go-multihash"
	"io"
	"os"
	"sort"
	"strings"

	ipld "github.com/ipld/go-ipld-prime"
	"github.com/ipld/go-ipld-prime/codec/dagcbor"
	"github.com/ipld/go-ipld-prime/codec/dagjson"
	"github.com/ipld/go-ipld-prime/datamodel"
	"github.com/ipld/go-ipld-prime/linking"
	cidlink "github.com/ipld/go-ipld-prime/linking/cid"
	"github.com/ipld/go-ipld-prime/multicodec"
	"github.com/ipld/go-ipld-prime/node/basicnode"
	"github.com/ipld/go-ipld-prime/node/bindnode"
	"github.com/ipld/go-ipld-prime/node/gendemo"
	"github.com/ipld/go-ipld-prime/printer"
	"github.com/ipld/go-ipld-prime/schema"
	"github.com/ipld/go-ipld-prime/storage/fsstore"
	"github.com/ipld/go-ipld-prime/storage/memstore"
	"github.com/ipld/go-ipld-prime/traversal"
	"github.com/ipld/go-ipld-prime/traversal/selector"
	"github.com/ipld/go-ipld-prime/traversal/selector/builder"
	"github.com/ipld/go-ipld-prime/zzsimhook"

	"verif/gen"
	"verif/model"
	"verif/scen/bindhist"
	"verif/sim"
)

// ---- Go types bound through bindnode ----

type Person struct {
	Name    string
	Age     int64
	Friends []string
	Nick    *string
	Pos     Point
	Pet     Animal
	Mood    string
}
type Point struct{ X, Y int64 }
type Animal struct {
	Dog *string
	Cat *int64
}

// SKMap is an ordered map whose keys are structs (stringjoin representation).
type SKey struct{ A, B string }
type SKMap struct {
	Keys   []SKey
	Values map[SKey]int64
}

// InferMe / InferToo are bound with an inferred (nil) schema.
type InferMe struct {
	A string
	B int64
	C []int64
}
type InferToo struct {
	Z bool
	L []int64
}

const schemaSrc = `
type Person struct {
	Name String
	Age Int
	Friends [String]
	Nick optional String
	Pos Point
	Pet Animal
	Mood Mood
}
type Point struct {
	X Int
	Y Int
} representation tuple
type Animal union {
	| String "dog"
	| Int "cat"
} representation keyed
type Mood enum {
	| Happy ("happy")
	| Sad ("sad")
}
type SKey struct { A String  B String } representation stringjoin { join ":" }
type SKMap {SKey:Int}
`

// world is everything the tasks share.
type world struct {
	ts         *schema.TypeSystem
	n1, n2     datamodel.Node
	bn         schema.TypedNode
	gd         datamodel.Node
	protoP     schema.TypedPrototype
	sel        selector.Selector
	selNode    datamodel.Node
	lsys       linking.LinkSystem
	cfg        *traversal.Config
	g          *gen.Graph
	lp         cidlink.LinkPrototype
	blockLnk   []datamodel.Link
	rawLnk     []datamodel.Link
	enc1       []byte // dag-cbor encoding of n1 (shared, read-only)
	encP       []byte // dag-json encoding of the bound struct's representation
	profile    int
	byt        datamodel.Node
	sbytCopy   datamodel.Node
	skMap      schema.TypedNode
	subsetNode datamodel.Node
	sbytBad    datamodel.Node
	vocab      []schema.TypedNode
	sels       []selector.Selector
	sbyt       datamodel.Node
	backend    string
	cleanup    func()
	namedSel   selector.Selector // a shared compiled selector naming fields and a range, not in sorted order
	namedRoot  datamodel.Node
}

// basicOnlyStore hides everything but the three basic calls of a store.
type basicOnlyStore struct{ s *memstore.Store }

func (b basicOnlyStore) Has(ctx context.Context, k string) (bool, error)   { return b.s.Has(ctx, k) }
func (b basicOnlyStore) Get(ctx context.Context, k string) ([]byte, error) { return b.s.Get(ctx, k) }
func (b basicOnlyStore) Put(ctx context.Context, k string, c []byte) error { return b.s.Put(ctx, k, c) }

// failingWriter fails its n-th Write (a consumer's writer is the consumer's own; encoding a shared node into it is a read of the node).
type failingWriter struct{ n, at int }

func (f *failingWriter) Write(p []byte) (int, error) {
	f.n++
	if f.n-1 == f.at {
		return 0, fmt.Errorf("writer failed at write %d", f.at)
	}
	return len(p), nil
}

func newPerson(i int) *Person {
	nick := fmt.Sprintf("nick%d", i)
	dog := "rex"
	p := &Person{Name: fmt.Sprintf("name-%d", i), Age: int64(20 + i), Friends: []string{"a", "b", "c"}[:i%4], Pos: Point{int64(i), -int64(i)}, Mood: "Happy"}
	if i%2 == 0 {
		p.Nick = &nick
	}
	if p.Friends == nil {
		p.Friends = []string{}
	}
	p.Pet = Animal{Dog: &dog}
	return p
}

func buildWorld(t *sim.Tape) *world {
	w := &world{}
	ts, err := ipld.LoadSchemaBytes([]byte(schemaSrc))
	if err != nil {
		panic(err)
	}
	w.ts = ts
	w.profile = t.Choice(3, "profile") // 0 fully configured; 1 Config with nil Ctx/chooser; 2 inferred schemas too
	w.lsys = cidlink.DefaultLinkSystem()
	if t.Choice(3, "cfg.fsstore") == 0 {
		// the filesystem store as the shared read-only store (real files under the child's scratch directory)
		dir, derr := os.MkdirTemp("/dev/shm", "verif-c20-store-")
		if derr != nil {
			dir, derr = os.MkdirTemp("", "verif-c20-store-")
		}
		if derr != nil {
			panic(derr)
		}
		w.cleanup = func() { os.RemoveAll(dir) }
		fs := &fsstore.Store{}
		if err := fs.InitDefaults(dir); err != nil {
			panic(err)
		}
		w.lsys.SetReadStorage(fs)
		w.lsys.SetWriteStorage(fs)
		w.backend = "fsstore"
	} else {
		ms := &memstore.Store{}
		w.lsys.SetReadStorage(ms)
		w.lsys.SetWriteStorage(ms)
		w.backend = "memstore"
		if t.Bool("cfg.basiconly") {
			// a store that offers only Has / Get / Put: reads go through the storage package's fallbacks
			w.lsys.SetReadStorage(basicOnlyStore{ms})
			w.backend = "memstore behind Has/Get/Put only"
		}
	}
	g, err := gen.NewGraph(t, &w.lsys, 6, 0)
	if err != nil {
		panic(err)
	}
	w.g = g
	for _, l := range g.Links {
		if l != "" {
			w.blockLnk = append(w.blockLnk, gen.LinkFromBin(l))
		}
	}
	for i := 0; i < 2; i++ {
		// two raw-codec blocks of one size
		content := bytes.Repeat([]byte{byte('A' + i)}, 96)
		lp := cidlink.LinkPrototype{Prefix: cid.Prefix{Version: 1, Codec: 0x55, MhType: mh.SHA2_256, MhLength: -1}}
		if l, err := w.lsys.Store(linking.LinkContext{}, lp, basicnode.NewBytes(content)); err == nil {
			w.rawLnk = append(w.rawLnk, l)
		}
	}
	cids := gen.SomeCids(t, 2)
	b := 25
	v := gen.Value(t, gen.DagCbor, cids, &b, 0)
	if v.K != model.Map && v.K != model.List {
		v = model.MapV().Put("v", v).Put("k", model.ListV(model.IntV(1), model.StringV("two"), model.BytesV([]byte{3})))
	}
	mk := func() datamodel.Node {
		nb := basicnode.Prototype.Any.NewBuilder()
		if err := model.Assemble(nb, v, gen.LinkFromBin, nil); err != nil {
			panic(err)
		}
		return nb.Build()
	}
	w.n1, w.n2 = mk(), mk()
	var eb bytes.Buffer
	if err := dagcbor.Encode(w.n1, &eb); err != nil {
		panic(err)
	}
	w.enc1 = eb.Bytes()
	w.bn = bindnode.Wrap(newPerson(2), ts.TypeByName("Person"))
	w.protoP = bindnode.Prototype((*Person)(nil), ts.TypeByName("Person"))
	var pb bytes.Buffer
	if err := dagjson.Encode(w.bn.Representation(), &pb); err != nil {
		panic(err)
	}
	w.encP = pb.Bytes()
	// generated-code node
	gb := gendemo.Type.Map__String__Msg3.NewBuilder()
	ma, _ := gb.BeginMap(2)
	for _, k := range []string{"one", "two"} {
		va, _ := ma.AssembleEntry(k)
		sa, _ := va.BeginMap(3)
		for i, f := range []string{"whee", "woot", "waga"} {
			fa, _ := sa.AssembleEntry(f)
			fa.AssignInt(int64(i + len(k)))
		}
		sa.Finish()
	}
	ma.Finish()
	w.gd = gb.Build()
	ssb := builder.NewSelectorSpecBuilder(basicnode.Prototype.Any)
	spec := ssb.ExploreRecursive(selector.RecursionLimitNone(), ssb.ExploreUnion(ssb.Matcher(), ssb.ExploreAll(ssb.ExploreRecursiveEdge())))
	w.selNode = spec.Node()
	w.sel, err = spec.Selector()
	if err != nil {
		panic(err)
	}
	w.lp = cidlink.LinkPrototype{Prefix: gen.LinkFromBin(cids[0]).(cidlink.Link).Prefix()}
	w.lp.Codec = 0x71
	w.cfg = &traversal.Config{LinkSystem: w.lsys, LinkVisitOnlyOnce: t.Bool("cfg.visitonce")}
	for i, n := 0, 1+t.Choice(4, "vocab.n"); i < n; i++ {
		func() {
			defer func() { recover() }()
			_, tn := bindhist.Sample(t.Choice(bindhist.VocabSize(), "vocab.type"), t.Choice(32, "vocab.val"))
			w.vocab = append(w.vocab, tn)
		}()
	}
	gen.FieldHints = nil
	if w.g.Root.K == model.Map {
		gen.FieldHints = w.g.Root.Keys
	}
	gen.StopLinks = nil
	for _, l := range w.g.Links {
		if l != "" {
			gen.StopLinks = append(gen.StopLinks, gen.LinkFromBin(l))
		}
	}
	for i, n := 0, 1+t.Choice(3, "sels.n"); i < n; i++ {
		if cs, err := gen.Selector(t, ssb, 0, false, false).Selector(); err == nil {
			w.sels = append(w.sels, cs)
		}
	}
	func() {
		src := basicnode.NewBytesFromReader(bytes.NewReader([]byte("the source of the shared subset match: a stream-backed bytes node of some length")))
		if sel, err := ssb.MatcherSubset(4, 60).Selector(); err == nil {
			traversal.Progress{Cfg: w.cfg}.WalkMatching(src, sel, func(_ traversal.Progress, n datamodel.Node) error {
				w.subsetNode = n
				return nil
			})
		}
	}()
	func() {
		defer func() { recover() }()
		w.namedRoot, _ = qp.BuildMap(basicnode.Prototype.Any, -1, func(ma datamodel.MapAssembler) {
			qp.MapEntry(ma, "zz", qp.Int(1))
			qp.MapEntry(ma, "list", qp.List(-1, func(la datamodel.ListAssembler) {
				for i := 0; i < 14; i++ {
					qp.ListEntry(la, qp.Int(int64(100+i)))
				}
			}))
			qp.MapEntry(ma, "a", qp.Int(2))
			qp.MapEntry(ma, "m", qp.Int(3))
		})
		w.namedSel, _ = ssb.ExploreFields(func(ef builder.ExploreFieldsSpecBuilder) {
			ef.Insert("zz", ssb.Matcher())
			ef.Insert("list", ssb.ExploreRange(8, 12, ssb.Matcher()))
			ef.Insert("m", ssb.Matcher())
			ef.Insert("a", ssb.Matcher())
		}).Selector()
	}()
	w.skMap = bindnode.Wrap(&SKMap{Keys: []SKey{{"a", "b"}, {"c", "d"}, {"e", "f"}}, Values: map[SKey]int64{{"a", "b"}: 11, {"c", "d"}: 35, {"e", "f"}: -2}}, w.ts.TypeByName("SKMap")).(schema.TypedNode)
	w.sbytBad = basicnode.NewBytesFromReader(&noSeekEnd{r: bytes.NewReader([]byte("a stream that can be read and rewound but not measured"))})
	w.byt = basicnode.NewBytes([]byte("shared plain bytes node, long enough for subsets"))
	w.sbyt = basicnode.NewBytesFromReader(bytes.NewReader([]byte("shared stream-backed bytes node: every reader sees all of it, from the start")))
	func() {
		defer func() { recover() }()
		nb := basicnode.Prototype.Bytes.NewBuilder()
		if err := nb.AssignNode(w.sbyt); err == nil {
			w.sbytCopy = nb.Build()
		}
	}()
	if w.profile == 0 {
		w.cfg.Ctx = ctxBackground
		w.cfg.LinkTargetNodePrototypeChooser = func(datamodel.Link, linking.LinkContext) (datamodel.NodePrototype, error) {
			return basicnode.Prototype.Any, nil
		}
	} else {
		// Ctx and chooser left nil: Progress.init fills in defaults. The default chooser only
		// serves typed link nodes, so walks in this profile stay inside the root block.
	}
	return w
}

func avHash(n datamodel.Node) string {
	v, err := model.FromNode(n)
	if err != nil {
		return "ERR:" + err.Error()
	}
	return fmt.Sprintf("%x", v.Hash())
}

const nOps = 49

var opNames = []string{"read-basicnode", "read-bindnode-type", "read-bindnode-repr", "deepequal", "copy", "encode-dagcbor", "encode-dagjson", "encode-bindnode-repr",
	"computelink", "load", "loadraw", "walkadv", "walkmatching", "get-path", "build-from-shared-prototype", "wrap-with-shared-type", "wrap-inferred", "registry-lookup",
	"print", "read-gendemo", "build-gendemo", "compile-selector", "typesystem-read", "prototype-inferred", "encode-to-failing-writer", "encode-after-failed-encode", "decode-dagcbor", "decode-dagjson-into-shared-prototype", "focused-transform-of-shared-node", "walk-transform-of-shared-node", "loadplusraw", "fill", "walk-stream-bytes-subset", "read-stream-backed-bytes", "read-vocabulary-node", "walk-with-seeded-selector", "subset-of-stream-that-cannot-seek-to-its-end", "load-raw-codec-block-and-read-it-later", "read-shared-subset-match-node", "new-default-linksystem", "select-links", "load-schema-dsl", "fluent-qp-build", "read-copy-of-stream-backed-bytes", "lookup-in-struct-keyed-map", "walk-transform-with-shared-selector-naming-children", "walk-with-shared-selector-naming-children", "prototype-with-go-type-inferred-from-schema", "merge-shared-type-system-into-a-private-one"}

// doOp performs one read-only operation on the shared world and returns a digest of its result.
func (w *world) doOp(op, arg int) string {
	switch op {
	case 0:
		return avHash(w.n1)
	case 1:
		return avHash(w.bn)
	case 2:
		return avHash(w.bn.Representation())
	case 3:
		return fmt.Sprint(datamodel.DeepEqual(w.n1, w.n2), datamodel.DeepEqual(w.bn, w.bn), datamodel.DeepEqual(w.n1, w.gd))
	case 4:
		nb := basicnode.Prototype.Any.NewBuilder()
		if err := datamodel.Copy(w.n1, nb); err != nil {
			return "ERR:" + err.Error()
		}
		return avHash(nb.Build())
	case 5:
		var buf bytes.Buffer
		err := dagcbor.Encode(w.n1, &buf)
		return fmt.Sprintf("%x %v", sim.HashString(buf.String()), err)
	case 6:
		var buf bytes.Buffer
		err := dagjson.Encode(w.gd.(schema.TypedNode).Representation(), &buf)
		return fmt.Sprintf("%x %v", sim.HashString(buf.String()), err)
	case 7:
		var buf bytes.Buffer
		err := dagcbor.Encode(w.bn.Representation(), &buf)
		return fmt.Sprintf("%x %v", sim.HashString(buf.String()), err)
	case 8:
		l, err := w.lsys.ComputeLink(w.lp, w.n1)
		return fmt.Sprint(l, err)
	case 9:
		if len(w.blockLnk) == 0 {
			return "none"
		}
		n, err := w.lsys.Load(linking.LinkContext{}, w.blockLnk[arg%len(w.blockLnk)], basicnode.Prototype.Any)
		if err != nil {
			return "ERR:" + err.Error()
		}
		return avHash(n)
	case 10:
		if len(w.blockLnk) == 0 {
			return "none"
		}
		b, err := w.lsys.LoadRaw(linking.LinkContext{}, w.blockLnk[arg%len(w.blockLnk)])
		return fmt.Sprintf("%x %v", sim.HashString(string(b)), err)
	case 11, 12:
		var sb strings.Builder
		visit := func(p traversal.Progress, n datamodel.Node) error {
			sb.WriteString(p.Path.String() + "=" + avHash(n) + ";")
			return nil
		}
		prog := traversal.Progress{Cfg: w.cfg}
		var err error
		root := w.g.RootNode
		if w.profile != 0 {
			root = w.n1 // no links crossed with the default chooser
		}
		if op == 11 {
			err = prog.WalkAdv(root, w.sel, func(p traversal.Progress, n datamodel.Node, _ traversal.VisitReason) error { return visit(p, n) })
		} else {
			err = prog.WalkMatching(root, w.sel, visit)
		}
		return fmt.Sprintf("%x %v", sim.HashString(sb.String()), err)
	case 13:
		prog := traversal.Progress{Cfg: w.cfg}
		n, err := prog.Get(w.bn, datamodel.ParsePath("Pos/X"))
		if err != nil {
			return "ERR:" + err.Error()
		}
		return avHash(n)
	case 14:
		nb := w.protoP.Representation().NewBuilder()
		if err := datamodel.Copy(w.bn.Representation(), nb); err != nil {
			return "ERR:" + err.Error()
		}
		return avHash(nb.Build())
	case 15:
		n := bindnode.Wrap(newPerson(arg%5), w.ts.TypeByName("Person"))
		p := bindnode.Prototype((*Point)(nil), w.ts.TypeByName("Point"))
		return avHash(n) + avHash(n.Representation()) + fmt.Sprint(p.Type().Name())
	case 16:
		if w.profile != 2 {
			return "skip"
		}
		n := bindnode.Wrap(&InferMe{A: "a", B: int64(arg), C: []int64{1, 2}}, nil)
		return avHash(n)
	case 17:
		e, err1 := multicodec.LookupEncoder(0x71)
		d, err2 := multicodec.LookupDecoder(0x0129)
		encs := multicodec.ListEncoders()
		sort.Slice(encs, func(i, j int) bool { return encs[i] < encs[j] })
		return fmt.Sprint(e != nil, d != nil, err1, err2, encs)
	case 18:
		return fmt.Sprintf("%x", sim.HashString(printer.Sprint(w.n1)+printer.Sprint(w.bn)+printer.Sprint(w.gd)))
	case 19:
		return avHash(w.gd) + avHash(w.gd.(schema.TypedNode).Representation())
	case 20:
		nb := gendemo.Type.Msg3.NewBuilder()
		ma, err := nb.BeginMap(3)
		if err != nil {
			return "ERR:" + err.Error()
		}
		for i, f := range []string{"whee", "woot", "waga"} {
			fa, err := ma.AssembleEntry(f)
			if err != nil {
				return "ERR:" + err.Error()
			}
			fa.AssignInt(int64(i * arg))
		}
		if err := ma.Finish(); err != nil {
			return "ERR:" + err.Error()
		}
		return avHash(nb.Build())
	case 21:
		s, err := selector.CompileSelector(w.selNode)
		if err != nil {
			return "ERR:" + err.Error()
		}
		var sb strings.Builder
		err = traversal.Progress{Cfg: w.cfg}.WalkMatching(w.n2, s, func(p traversal.Progress, n datamodel.Node) error {
			sb.WriteString(p.Path.String() + ";")
			return nil
		})
		return fmt.Sprintf("%x %v", sim.HashString(sb.String()), err)
	case 22:
		var sb strings.Builder
		for _, name := range []string{"Person", "Point", "Animal", "Mood"} {
			typ := w.ts.TypeByName(name)
			sb.WriteString(fmt.Sprint(typ.Name(), typ.TypeKind(), typ.RepresentationBehavior()))
			if st, ok := typ.(*schema.TypeStruct); ok {
				for _, f := range st.Fields() {
					sb.WriteString(f.Name() + ":" + f.Type().Name() + fmt.Sprint(f.IsOptional(), f.IsNullable()) + ",")
				}
			}
		}
		return sb.String()
	case 26:
		// decode shared bytes into a fresh generic builder
		nb := basicnode.Prototype.Any.NewBuilder()
		if err := dagcbor.Decode(nb, bytes.NewReader(w.enc1)); err != nil {
			return "ERR:" + err.Error()
		}
		return avHash(nb.Build())
	case 27:
		// decode shared bytes through the shared reflection-bound prototype (representation level)
		nb := w.protoP.Representation().NewBuilder()
		if err := dagjson.Decode(nb, bytes.NewReader(w.encP)); err != nil {
			return "ERR:" + err.Error()
		}
		return avHash(nb.Build())
	case 28:
		// a focused transform reads the shared node and builds a new one
		res, err := traversal.Progress{Cfg: w.cfg}.FocusedTransform(w.bn, datamodel.ParsePath("Pos/X"), func(_ traversal.Progress, prev datamodel.Node) (datamodel.Node, error) {
			return basicnode.NewInt(int64(arg)), nil
		}, false)
		if err != nil {
			return "ERR:" + err.Error()
		}
		return avHash(res) + avHash(w.bn)
	case 29:
		res, err := traversal.Progress{Cfg: w.cfg}.WalkTransforming(w.n2, w.sel, func(_ traversal.Progress, n datamodel.Node) (datamodel.Node, error) {
			if n.Kind() == datamodel.Kind_Int {
				return basicnode.NewInt(int64(arg)), nil
			}
			return n, nil
		})
		if err != nil {
			return "ERR:" + err.Error()
		}
		return avHash(res) + avHash(w.n2)
	case 30:
		if len(w.blockLnk) == 0 {
			return "none"
		}
		n, b, err := w.lsys.LoadPlusRaw(linking.LinkContext{}, w.blockLnk[arg%len(w.blockLnk)], basicnode.Prototype.Any)
		if err != nil {
			return "ERR:" + err.Error()
		}
		return avHash(n) + fmt.Sprintf(" %x", sim.HashString(string(b)))
	case 31:
		if len(w.blockLnk) == 0 {
			return "none"
		}
		nb := basicnode.Prototype.Any.NewBuilder()
		if err := w.lsys.Fill(linking.LinkContext{}, w.blockLnk[arg%len(w.blockLnk)], nb); err != nil {
			return "ERR:" + err.Error()
		}
		return avHash(nb.Build())
	case 32:
		// a subset match over the shared plain bytes node, read completely
		ssb := builder.NewSelectorSpecBuilder(basicnode.Prototype.Any)
		sel, err := ssb.MatcherSubset(int64(arg%3), int64(4+arg)).Selector()
		if err != nil {
			return "ERR:" + err.Error()
		}
		out := ""
		err = traversal.Progress{Cfg: w.cfg}.WalkMatching(w.byt, sel, func(_ traversal.Progress, n datamodel.Node) error {
			out += avHash(n)
			return nil
		})
		return fmt.Sprint(out, err)
	case 33:
		// the shared stream-backed bytes node: read whole, and in pieces through a reader of our own
		b, err := w.sbyt.AsBytes()
		out := fmt.Sprintf("%x %v", sim.HashString(string(b)), err)
		if lb, ok := w.sbyt.(datamodel.LargeBytesNode); ok {
			rs, err := lb.AsLargeBytes()
			if err != nil {
				return out + " ERR:" + err.Error()
			}
			buf := make([]byte, 5+arg)
			var got []byte
			for {
				n, e := rs.Read(buf)
				got = append(got, buf[:n]...)
				if e != nil {
					break
				}
			}
			out += fmt.Sprintf(" %x", sim.HashString(string(got)))
		}
		return out
	case 34:
		// shared reflection-bound nodes of C19's vocabulary shapes: both views, and an encode
		if len(w.vocab) == 0 {
			return "none"
		}
		tn := w.vocab[arg%len(w.vocab)]
		var buf bytes.Buffer
		err := dagcbor.Encode(tn.Representation(), &buf)
		return avHash(tn) + avHash(tn.Representation()) + fmt.Sprintf(" %x %v", sim.HashString(buf.String()), err != nil)
	case 35:
		// a matching walk with one of the shared, seeded selectors (conditions, ranges, unions, fields, subsets)
		if len(w.sels) == 0 {
			return "none"
		}
		var sb strings.Builder
		root := w.g.RootNode
		if w.profile != 0 {
			root = w.n1
		}
		err := traversal.Progress{Cfg: w.cfg}.WalkMatching(root, w.sels[arg%len(w.sels)], func(p traversal.Progress, n datamodel.Node) error {
			sb.WriteString(p.Path.String() + "=" + avHash(n) + ";")
			return nil
		})
		return fmt.Sprintf("%x %v", sim.HashString(sb.String()), err != nil)
	case 36:
		// A shared stream-backed bytes node whose stream refuses to seek to its end (a permanent I/O
		// fault of the caller's stream): a subset match needs the length and fails -- for every user
		// alike, alone or not -- and the node can still be read sequentially afterwards.
		ssb := builder.NewSelectorSpecBuilder(basicnode.Prototype.Any)
		sel, err := ssb.MatcherSubset(1, int64(3+arg)).Selector()
		if err != nil {
			return "ERR:" + err.Error()
		}
		err = traversal.Progress{Cfg: w.cfg}.WalkMatching(w.sbytBad, sel, func(_ traversal.Progress, n datamodel.Node) error { return nil })
		b, err2 := w.sbytBad.AsBytes()
		return fmt.Sprintf("%v %x %v", err != nil, sim.HashString(string(b)), err2 != nil)
	case 37:
		// a raw-codec block is loaded, the node is kept while another block is loaded, then read
		if len(w.rawLnk) < 2 {
			return "none"
		}
		n, err := w.lsys.Load(linking.LinkContext{}, w.rawLnk[arg%2], basicnode.Prototype.Any)
		if err != nil {
			return "ERR:" + err.Error()
		}
		first := avHash(n)
		if _, err := w.lsys.Load(linking.LinkContext{}, w.rawLnk[(arg+1)%2], basicnode.Prototype.Any); err != nil {
			return "ERR:" + err.Error()
		}
		return first + " " + avHash(n)
	case 38:
		// the shared node a subset match over a stream-backed bytes node produced: whole, and in pieces
		if w.subsetNode == nil {
			return "none"
		}
		b, err := w.subsetNode.AsBytes()
		out := fmt.Sprintf("%x %v", sim.HashString(string(b)), err)
		if lb, ok := w.subsetNode.(datamodel.LargeBytesNode); ok {
			if rs, err := lb.AsLargeBytes(); err == nil {
				buf := make([]byte, 3+arg)
				var got []byte
				for {
					n, e := rs.Read(buf)
					got = append(got, buf[:n]...)
					if e != nil {
						break
					}
				}
				out += fmt.Sprintf(" %x", sim.HashString(string(got)))
			}
		}
		return out
	case 39:
		// every caller makes its own default link system (reads the default multicodec and multihash registries)
		ls := cidlink.DefaultLinkSystem()
		l, err := ls.ComputeLink(w.lp, w.n1)
		return fmt.Sprint(l, err)
	case 40:
		links, err := traversal.SelectLinks(w.g.RootNode)
		var sb strings.Builder
		for _, l := range links {
			sb.WriteString(l.String() + ";")
		}
		return fmt.Sprintf("%x %v", sim.HashString(sb.String()), err)
	case 41:
		// the same schema text is parsed and compiled by every caller
		ts, err := ipld.LoadSchemaBytes([]byte(sharedSchemaText))
		if err != nil {
			return "ERR:" + err.Error()
		}
		names := ts.Names()
		out := fmt.Sprint(len(names))
		for _, n := range []string{"Person", "Point", "Shape"} {
			if t := ts.TypeByName(n); t != nil {
				out += " " + t.Name() + ":" + t.TypeKind().String()
			}
		}
		return out
	case 42:
		n, err := qp.BuildMap(basicnode.Prototype.Any, -1, func(ma datamodel.MapAssembler) {
			qp.MapEntry(ma, "shared", qp.Node(w.n1))
			qp.MapEntry(ma, "list", qp.List(-1, func(la datamodel.ListAssembler) {
				qp.ListEntry(la, qp.Int(int64(arg)))
				qp.ListEntry(la, qp.Node(w.bn))
			}))
		})
		if err != nil {
			return "ERR:" + err.Error()
		}
		return avHash(n)
	case 43:
		// the copy a bytes builder made of the shared stream-backed node (same underlying stream)
		if w.sbytCopy == nil {
			return "none"
		}
		b, err := w.sbytCopy.AsBytes()
		return fmt.Sprintf("%x %v", sim.HashString(string(b)), err)
	case 45, 46:
		// one compiled selector that names fields and a range of indices (not in sorted order) is shared by
		// transforming walks (45) and read-only walks (46): the order of visits is the selector's
		if w.namedSel == nil || w.namedRoot == nil {
			return "none"
		}
		var sb strings.Builder
		if op == 45 {
			res, err := traversal.Progress{Cfg: w.cfg}.WalkTransforming(w.namedRoot, w.namedSel, func(p traversal.Progress, n datamodel.Node) (datamodel.Node, error) {
				sb.WriteString(p.Path.String() + ";")
				if arg%2 == 0 {
					return n, nil
				}
				return basicnode.NewInt(int64(arg)), nil
			})
			if err != nil {
				return "ERR:" + err.Error()
			}
			return sb.String() + avHash(res) + avHash(w.namedRoot)
		}
		err := traversal.Progress{Cfg: w.cfg}.WalkAdv(w.namedRoot, w.namedSel, func(p traversal.Progress, n datamodel.Node, _ traversal.VisitReason) error {
			sb.WriteString(p.Path.String() + "=" + avHash(n) + ";")
			return nil
		})
		return fmt.Sprintf("%s %v", sb.String(), err != nil)
	case 48:
		// a caller builds its own type system out of the shared one: a read of the shared one
		target := new(schema.TypeSystem)
		target.Init()
		if arg%2 == 1 {
			// ... into one that has some of the names already (duplicates are skipped)
			target.Accumulate(schema.SpawnString("Person"))
			target.Accumulate(schema.SpawnInt("Point"))
		}
		schema.MergeTypeSystem(target, w.ts, true)
		names := target.Names()
		return fmt.Sprintf("%d names, first %v", len(names), names[0])
	case 47:
		// the Go type is inferred from the schema type (no Go type given): every caller gets a working prototype
		names := []string{"Person", "Point", "Animal", "SKMap"}
		out := ""
		var p schema.TypedPrototype
		var typ schema.Type
		for k := range names {
			typ = w.ts.TypeByName(names[(arg+k)%len(names)])
			if typ == nil {
				return "none"
			}
			p = bindnode.Prototype(nil, typ)
			out += fmt.Sprintf("%s %v ", typ.Name(), p.Type() == typ)
		}
		if typ.Name() == "Point" {
			n, err := qp.BuildMap(p, -1, func(ma datamodel.MapAssembler) {
				qp.MapEntry(ma, "X", qp.Int(int64(arg)))
				qp.MapEntry(ma, "Y", qp.Int(-1))
			})
			if err != nil {
				return out + " ERR:" + err.Error()
			}
			out += " " + avHash(n)
		}
		return out
	case 44:
		// keyed lookups in a shared reflection-bound map whose keys are structs (stringjoin representation)
		keys := []string{"a:b", "c:d", "e:f", "nope:nope"}
		k := keys[arg%len(keys)]
		out := k
		v, err := w.skMap.LookupByString(k)
		if err != nil {
			out += " ERR"
		} else {
			out += " " + avHash(v)
		}
		v, err = w.skMap.Representation().LookupByString(keys[(arg+1)%len(keys)])
		if err != nil {
			out += " ERR"
		} else {
			out += " " + avHash(v)
		}
		return out
	case 24, 25:
		// encode a shared map-bearing node into a writer that fails at its arg-th write, then (25) encode again properly
		fw := &failingWriter{at: arg}
		err := dagcbor.Encode(w.n1, fw)
		out := fmt.Sprint(err != nil)
		if op == 25 {
			var buf bytes.Buffer
			err2 := dagcbor.Encode(w.bn.Representation(), &buf)
			var buf2 bytes.Buffer
			err3 := dagcbor.Encode(w.n1, &buf2)
			out += fmt.Sprintf(" %x %v %x %v", sim.HashString(buf.String()), err2, sim.HashString(buf2.String()), err3)
		}
		return out
	case 23:
		if w.profile != 2 {
			return "skip"
		}
		p := bindnode.Prototype((*InferToo)(nil), nil)
		nb := p.NewBuilder()
		ma, err := nb.BeginMap(2)
		if err != nil {
			return "ERR:" + err.Error()
		}
		va, _ := ma.AssembleEntry("Z")
		va.AssignBool(true)
		va, _ = ma.AssembleEntry("L")
		la, _ := va.BeginList(1)
		la.AssembleValue().AssignInt(int64(arg))
		la.Finish()
		if err := ma.Finish(); err != nil {
			return "ERR:" + err.Error()
		}
		return avHash(nb.Build())
	}
	return "?"
}

// safeOp turns a panic into a result: a panic that also happens when the
// operation runs alone is not a concurrency matter.
func (w *world) safeOp(op, arg int) (res string) {
	defer func() {
		if r := recover(); r != nil {
			if _, ok := r.(interface{ IsStepCap() }); ok {
				panic(r)
			}
			res = "PANIC:" + panicString(r)
		}
	}()
	return w.doOp(op, arg)
}

func panicString(r interface{}) string {
	switch x := r.(type) {
	case error:
		return x.Error()
	case string:
		return x
	case interface{ String() string }:
		return x.String()
	}
	return "non-string panic"
}

// ChildResult is what the race child reports.
type ChildResult struct {
	Tape     []sim.Entry `json:"tape"`
	Profile  int         `json:"profile"`
	Backend  string      `json:"backend"`
	Tasks    [][]string  `json:"tasks"` // planned ops per task
	Mismatch []string    `json:"mismatch"`
	Panics   []string    `json:"panics"`
	IHash    uint64      `json:"ihash"`
	Events   uint64      `json:"events"`
	Switches int         `json:"switches"`
	Capped   bool        `json:"capped"`
	Pairs    []string    `json:"pairs"` // op kinds that ran in different tasks of this run
}

type childIn struct {
	Seed   uint64         `json:"seed"`
	Forced map[string]int `json:"forced"`
	Replay []sim.Entry    `json:"replay"`
}

// ChildMain runs one C20 run inside the -race binary. args: <in.json> <out.json>
func ChildMain(args []string) int {
	if len(args) < 2 {
		return 2
	}
	raw, err := os.ReadFile(args[0])
	if err != nil {
		return 2
	}
	var in childIn
	if json.Unmarshal(raw, &in) != nil {
		return 2
	}
	var t *sim.Tape
	if in.Replay != nil {
		t = sim.NewReplay(in.Replay)
	} else {
		t = sim.NewTape(in.Seed)
		t.Forced = in.Forced
	}
	w := buildWorld(t)
	if w.cleanup != nil {
		defer w.cleanup()
	}
	res := &ChildResult{Profile: w.profile, Backend: w.backend}
	ntasks := 2 + t.Choice(5, "ntasks")
	type planned struct{ op, arg int }
	plans := make([][]planned, ntasks)
	for i := range plans {
		for len(plans[i]) < 3 {
			plans[i] = append(plans[i], planned{t.Choice(nOps, "op.kind"), t.Choice(8, "op.arg")})
		}
		for len(plans[i]) < 10 && t.Begin("op", 70) {
			plans[i] = append(plans[i], planned{t.Choice(nOps, "op.kind"), t.Choice(8, "op.arg")})
			t.End()
		}
		var names []string
		for _, p := range plans[i] {
			names = append(names, opNames[p.op])
		}
		res.Tasks = append(res.Tasks, names)
	}
	qmax := []int{30, 300, 3000, 30000, 300000}[t.Choice(5, "cfg.maxq")]
	s := sim.NewSim(t, sim.NewBlindBaton())
	s.MaxQ = qmax
	s.MaxSteps = 30_000_000
	results := make([][]string, ntasks)
	for i := range plans {
		i := i
		results[i] = make([]string, len(plans[i]))
		s.Go(fmt.Sprintf("task%d", i), func() {
			for j, p := range plans[i] {
				s.Yield("op")
				results[i][j] = w.safeOp(p.op, p.arg)
			}
		})
	}
	zzsimhook.Yield = s.Yield
	zzsimhook.YieldBlocked = s.YieldBlocked
	if tf := os.Getenv("VERIF_C20_TRACE"); tf != "" {
		f, _ := os.Create(tf)
		defer f.Close()
		zzsimhook.Yield = func(site string) {
			fmt.Fprintf(f, "%d %s\n", s.Cur(), site)
			s.Yield(site)
		}
	}
	s.Run()
	zzsimhook.Yield, zzsimhook.YieldBlocked = nil, nil
	for _, tk := range s.Finished {
		if tk.Panic != nil {
			res.Panics = append(res.Panics, fmt.Sprintf("%s: %v\n%s", tk.Name, tk.Panic, tk.Stack))
		}
	}
	// reference: the same operation lists alone, AFTER the concurrent phase
	// (so the reference cannot pre-warm lazily initialised state)
	for i := range plans {
		for j, p := range plans[i] {
			ref := w.safeOp(p.op, p.arg)
			if results[i][j] != "" && ref != results[i][j] {
				res.Mismatch = append(res.Mismatch, fmt.Sprintf("%s (task %d op %d): concurrent run gave %q, alone it gives %q", opNames[p.op], i, j, results[i][j], ref))
			}
		}
	}
	seen := map[string]bool{}
	for i := range plans {
		for k := i + 1; k < len(plans); k++ {
			for _, a := range plans[i] {
				for _, b := range plans[k] {
					x, y := opNames[a.op], opNames[b.op]
					if x > y {
						x, y = y, x
					}
					if !seen[x+"|"+y] {
						seen[x+"|"+y] = true
						res.Pairs = append(res.Pairs, x+"|"+y)
					}
				}
			}
		}
	}
	sort.Strings(res.Pairs)
	res.Tape, res.IHash, res.Events, res.Switches, res.Capped = t.Rec, s.IHash, s.Seq, s.Switches, s.Capped
	js, _ := json.Marshal(res)
	if err := os.WriteFile(args[1], js, 0666); err != nil {
		return 2
	}
	return 0
}

// noSeekEnd is a caller's stream that fails every seek relative to its end.
type noSeekEnd struct{ r *bytes.Reader }

func (n *noSeekEnd) Read(p []byte) (int, error) { return n.r.Read(p) }
func (n *noSeekEnd) Seek(off int64, whence int) (int64, error) {
	if whence == io.SeekEnd {
		return 0, fmt.Errorf("this stream cannot seek relative to its end")
	}
	return n.r.Seek(off, whence)
}

const sharedSchemaText = `
type Point struct { X Int  Y Int } representation tuple
type Person struct { Name String  Age optional Int  Pos Point  Tags [String] }
type Shape union { | Point "point" | Person "person" } representation keyed
`
