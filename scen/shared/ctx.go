package shared

import "context"

var ctxBackground = context.Background()
