// Package kvstore decides C17: every bundled block store is a faithful
// key-value map for arbitrary binary keys under content-addressed use.
//
// World: 1-4 client tasks on ONE store (memstore.Store, cidlink.Memory,
// fsstore with default and custom escaping/sharding on the simulated disk),
// reached directly and through the storage.* helper functions, with and
// without the optional interfaces hidden (so the fallbacks in storage/funcs.go
// run). The recorded history is checked against a write-once map model, both
// by a direct interval rule and by porcupine; on the simulated disk every
// path touched must stay under the base directory and distinct keys must be
// committed to distinct paths.
package kvstore

import (
	"bytes"
	"context"
	"encoding/base32"
	"encoding/hex"
	"errors"
	"fmt"
	"github.com/ipld/go-ipld-prime/zzsimhook"
	"io"
	"os"
	"path/filepath"
	"sort"
	"strings"
	"sync/atomic"
	"syscall"
	"time"

	"github.com/anishathalye/porcupine"
	cid "github.com/ipfs/go-cid"
	"github.com/ipld/go-ipld-prime/datamodel"
	"github.com/ipld/go-ipld-prime/linking"
	cidlink "github.com/ipld/go-ipld-prime/linking/cid"
	"github.com/ipld/go-ipld-prime/storage"
	"github.com/ipld/go-ipld-prime/storage/fsstore"
	"github.com/ipld/go-ipld-prime/storage/memstore"
	"github.com/ipld/go-ipld-prime/storage/sharding"
	mh "github.com/multiformats/go-multihash"

	"verif/scen"
	"verif/sim"
	"verif/simos"
)

type S struct{}

func (S) ID() string    { return "C17" }
func (S) Level() string { return "exploration" }

func (S) Info() scen.Info {
	return scen.Info{
		Rule: "unit = one seeded history: backend x access style x hidden-interface wrapper x key pool (CID binaries and adversarial byte strings) x <=40 operations by 1-4 interleaved clients, fault-free (and, for fsstore, a second profile with seeded disk errors). " +
			"distinct_nontrivial counts distinct hash(backend config, sequence of (op kind, key class, outcome)) over histories containing at least one successful put followed by a read of the same key. Later additions: one key per history may hold the empty block (nil, []byte{}, unwritten stream, empty vector); access through the openers LinkSystem.SetReadStorage/SetWriteStorage install; a wrapper store with its own PutVec; rename that refuses to replace.",
		DistinctSet: "history",
		Assumptions: []string{
			"each key is only ever given one content (content-addressed use), as the property states",
			"cidlink.Memory is keyed by multihash by documented design; its keys are genuine links of their content",
			"custom escaping functions used for fsstore are injective and emit path-safe characters (hex, lower-case base32); an unsafe user-supplied escaping function is the user's configuration",
			"a put that returns an error may leave the key absent or complete",
			"the empty key is exercised: the WriteCommitter's documented empty-key abort convention is honoured by the model (commit(\"\") stores nothing)",
		},
		Components: map[string]string{
			"storage/memstore, linking/cid.Memory, storage/fsstore, storage/sharding, storage/funcs.go, linking/setup.go": "real",
			"filesystem":           "real kernel tmpfs under the simos control layer (containment guard, yields, optional errno faults)",
			"goroutine scheduling": "stub: seeded one-at-a-time scheduler; yields between operations, between stream pieces and at every fs call",
			"reference model":      "write-once map (direct interval rule + porcupine v1.3.0 nondeterministic model, partitioned by key)",
		},
		QuickUnits: 60000, ThoroughUnits: 3000000, QuickSecs: 240, ThoroughSecs: 1200,
		ProbeKeys: []string{"probe.fallback_putstream", "probe.fallback_getstream", "probe.fallback_peek", "probe.fallback_putvec", "probe.buffer_scribbled", "probe.key_with_nul", "probe.key_with_slash", "probe.key_dotdot", "probe.key_empty", "probe.concurrent_put_read", "probe.failed_put", "probe.porcupine_checked", "probe.empty_content", "probe.via_linksystem_openers", "probe.putvec_same_vector_twice", "probe.get_result_scribbled", "probe.large_block", "probe.store_value_per_client"},
		EventsKey: "events",
	}
}

var runCounter int64

func shmRoot() string {
	for _, d := range []string{"/dev/shm", os.TempDir()} {
		p := filepath.Join(d, fmt.Sprintf("verif-sim-%d", os.Getpid()))
		if err := os.MkdirAll(p, 0777); err == nil {
			return p
		}
	}
	panic("no scratch directory")
}

// ---- wrappers hiding optional interfaces ----

type rw interface {
	storage.ReadableStorage
	storage.WritableStorage
}
type basicOnly struct{ s rw }

func (b basicOnly) Has(ctx context.Context, k string) (bool, error)   { return b.s.Has(ctx, k) }
func (b basicOnly) Get(ctx context.Context, k string) ([]byte, error) { return b.s.Get(ctx, k) }
func (b basicOnly) Put(ctx context.Context, k string, c []byte) error { return b.s.Put(ctx, k, c) }

// vecNative is a store that offers PutVec itself (no bundled store does): the basic store plus a
// PutVec that joins the pieces. It exists so that the storage.PutVec helper's delegation to a
// store's own PutVec is exercised; the joining stub is part of the harness.
type vecNative struct{ basicOnly }

func (v vecNative) PutVec(ctx context.Context, k string, pieces [][]byte) error {
	var all []byte
	for _, p := range pieces {
		all = append(all, p...)
	}
	return v.s.Put(ctx, k, all)
}

type keptGet struct {
	b   []byte
	h   uint64
	key int
}

// ---- history ----

type hop struct {
	client   int
	kind     string // put | read
	how      string
	key      int
	inv, ret uint64
	ok       bool // put: returned nil ; read: present
	failed   bool // put: returned an error (may or may not have taken effect)
	err      error
	c0, c1   int // fs call index range (fs backends)
}

type world struct {
	t    *sim.Tape
	s    *sim.Sim
	o    *sim.Outcome
	st   *sim.Stats
	d    *simos.Disk
	keys []string
	kcls []string
	cont [][]byte
	lnks []datamodel.Link

	haveEmpty bool // one key of this history holds the empty block
	openW     linking.BlockWriteOpener
	openR     linking.BlockReadOpener

	backend   int
	bname     string
	store     rw // storage.* backends
	mem       *cidlink.Memory
	hist      []hop
	another   func() (rw, error) // opens the same directory with another Store value (filesystem back ends)
	perClient map[int]rw         // client -> its own Store value over the shared directory
	kept      []keptGet          // slices Get returned (a safe copy by contract): they belong to the caller
	helper    bool
	faulty    bool
	ncl       int
}

// absent classifies a failed read: on a healthy store every error means
// "absent"; under injected disk faults only a not-exist error does, any other
// error says nothing about presence.
func (w *world) absent(h *hop, err error) {
	if w.faulty && !errors.Is(err, os.ErrNotExist) {
		h.kind = "readerr"
	}
}

func b32lower(s string) string {
	return strings.ToLower(base32.StdEncoding.WithPadding(base32.NoPadding).EncodeToString([]byte(s)))
}
func hexEsc(s string) string { return hex.EncodeToString([]byte(s)) }

func (S) RunTape(t *sim.Tape, st *sim.Stats, keepLog bool) *sim.Outcome {
	o := &sim.Outcome{}
	s := sim.NewSim(t, sim.NewChanBaton())
	s.Log.Keep = keepLog
	s.MaxSteps = 200000
	w := &world{t: t, s: s, o: o, st: st}
	// function-entry yields inside the storage packages (build overlay): callers can be
	// interleaved between the steps of computing a path, not only at file-system calls
	zzsimhook.Yield = s.Yield
	zzsimhook.YieldBlocked = s.YieldBlocked
	defer func() { zzsimhook.Yield, zzsimhook.YieldBlocked = nil, nil }()

	// ---- configuration ----
	w.backend = t.Choice(4, "cfg.backend") // 0 memstore, 1 cidlink.Memory, 2 fsstore defaults, 3 fsstore custom
	hide := t.Bool("cfg.hide")
	w.helper = t.Bool("cfg.helper") || hide
	faulty := false
	s.MaxQ = []int{0, 2, 8}[t.Choice(3, "cfg.maxq")]
	var root string
	switch w.backend {
	case 0:
		w.bname = "memstore"
		w.store = &memstore.Store{}
	case 1:
		w.bname = "cidlink.Memory"
		w.mem = &cidlink.Memory{}
		w.openW, w.openR = w.mem.OpenWrite, w.mem.OpenRead
	case 2, 3:
		root = filepath.Join(shmRoot(), fmt.Sprintf("k%d", atomic.AddInt64(&runCounter, 1)))
		base := filepath.Join(root, "store")
		if err := os.MkdirAll(base, 0777); err != nil {
			panic(err)
		}
		w.d = simos.NewDisk(s, base)
		w.d.Install()
		defer func() {
			simos.Uninstall()
			w.d.CloseAll()
			os.RemoveAll(root)
		}()
		fs := &fsstore.Store{}
		var err error
		if w.backend == 2 {
			w.bname = "fsstore(defaults)"
			err = fs.InitDefaults(base)
			w.another = func() (rw, error) {
				x := &fsstore.Store{}
				return x, x.InitDefaults(base)
			}
		} else {
			esc := t.Choice(2, "cfg.esc")
			sh := t.Choice(4, "cfg.shard")
			w.bname = fmt.Sprintf("fsstore(esc=%s,shard=%s)", []string{"hex", "b32lower"}[esc], []string{"r12", "r122", "r133", "flat(user-defined)"}[sh])
			err = fs.Init(base, []func(string) string{hexEsc, b32lower}[esc],
				[]func(string, *[]string){sharding.Shard_r12, sharding.Shard_r122, sharding.Shard_r133, shardFlat}[sh])
			w.another = func() (rw, error) {
				x := &fsstore.Store{}
				return x, x.Init(base, []func(string) string{hexEsc, b32lower}[esc],
					[]func(string, *[]string){sharding.Shard_r12, sharding.Shard_r122, sharding.Shard_r133, shardFlat}[sh])
			}
		}
		if err != nil {
			o.Fail("init", "fsstore.Init", "Init failed on a healthy disk: %v", err)
			return o
		}
		w.store = fs
		faulty = t.Pct(25, "cfg.faulty")
		w.d.SplitWrites = t.Bool("cfg.split")
		w.d.NoReplaceRename = t.Pct(15, "cfg.rename_noreplace")
	}
	if !hide && w.another != nil && t.Pct(25, "cfg.store_per_client") {
		// every client opens the directory itself: several Store values over one directory
		w.perClient = map[int]rw{}
		w.bname += "+store-per-client"
		st.Inc("probe.store_value_per_client")
	}
	if hide && w.store != nil {
		if t.Pct(25, "cfg.vecnative") {
			w.store = vecNative{basicOnly{w.store}}
			w.bname += "+basicOnly+ownPutVec"
		} else {
			w.store = basicOnly{w.store}
			w.bname += "+basicOnly"
		}
	}
	if w.helper {
		w.bname += "+helpers"
	}
	if w.store != nil {
		var ls linking.LinkSystem
		ls.SetReadStorage(w.store)
		ls.SetWriteStorage(w.store)
		w.openW, w.openR = ls.StorageWriteOpener, ls.StorageReadOpener
	}

	// ---- keys and contents ----
	nkeys := 3 + t.Choice(8, "nkeys")
	seen := map[string]bool{}
	// one block in some histories is large (beyond any size from which an implementation might
	// start treating blocks differently: pooled or shared read buffers, chunked copies)
	bigKey := -1
	if t.Pct(8, "clen.big") {
		bigKey = t.Choice(nkeys, "clen.big.key")
		st.Inc("probe.large_block")
	}
	for i := 0; i < nkeys; i++ {
		var content []byte
		switch c := t.Choice(10, "clen.class"); {
		case i == bigKey:
			// sizes at and around the powers of two and their multiples where chunked copies end
			// (three bytes are appended below to make the content unique)
			n := (128 << 10) * (1 + t.Choice(3, "clen.big.class"))
			switch t.Choice(5, "clen.big.delta") {
			case 0:
				n--
			case 1, 2:
			case 3:
				n++
			default:
				n += t.Choice(5000, "clen")
			}
			content = t.Sub("content").Bytes(n - 3)
		case c == 0:
			content = []byte{}
		case c < 7:
			content = t.Sub("content").Bytes(1 + t.Choice(80, "clen"))
		case c < 9:
			content = t.Sub("content").Bytes(100 + t.Choice(5000, "clen"))
		default:
			content = t.Sub("content").Bytes(5000 + t.Choice(60000, "clen"))
		}
		// unique contents (so a read is attributable to one key); one key per history may hold the
		// empty block, which callers hand over as nil, as []byte{}, as a stream without writes or as
		// a vector without elements
		if len(content) == 0 && !w.haveEmpty {
			w.haveEmpty = true
			st.Inc("probe.empty_content")
		} else {
			content = append(content, byte(i), byte(i>>8), 0xA5)
		}
		key, cls, lnk := w.genKey(i, content)
		for seen[key] {
			key += "~"
			cls += "+dedup"
			lnk = nil
		}
		if w.backend == 1 && lnk == nil {
			key, cls, lnk = cidKey(t, content, true)
		}
		if w.backend == 1 && len(w.lnks) > 0 && t.Pct(25, "key.digestalias") {
			// a block whose bytes ARE the digest of an earlier key, under the identity hash: its multihash
			// carries the same digest bytes as the earlier key's, under another hash function code
			prev := w.lnks[t.Choice(len(w.lnks), "key.alias.of")].(cidlink.Link)
			if dm, err := mh.Decode(prev.Hash()); err == nil && dm.Code != mh.IDENTITY && len(dm.Digest) > 0 {
				content = append([]byte(nil), dm.Digest...)
				c, _ := cid.Prefix{Version: 1, Codec: 0x55, MhType: mh.IDENTITY, MhLength: -1}.Sum(content)
				lnk = cidlink.Link{Cid: c}
				key, cls = lnk.Binary(), "cid-identity-of-another-digest"
				st.Inc("probe.digest_alias_key")
			}
		}
		if w.backend == 1 {
			// Memory is keyed by multihash: identical multihash = identical content here,
			// because keys are genuine links; but two different CIDs over one multihash
			// of the same content are one key for the model.
			key = string(lnk.(cidlink.Link).Hash())
			if seen[key] {
				continue
			}
		}
		seen[key] = true
		w.keys = append(w.keys, key)
		w.kcls = append(w.kcls, cls)
		w.cont = append(w.cont, content)
		w.lnks = append(w.lnks, lnk)
		if strings.ContainsRune(key, 0) {
			st.Inc("probe.key_with_nul")
		}
		if strings.Contains(key, "/") {
			st.Inc("probe.key_with_slash")
		}
		if strings.Contains(key, "..") {
			st.Inc("probe.key_dotdot")
		}
		if key == "" {
			st.Inc("probe.key_empty")
		}
	}
	nkeys = len(w.keys)

	// ---- clients ----
	ncl := 1 + t.Choice(4, "nclients")
	type plan struct {
		kind, key, end, chunk int
		pieces                []int
		scribble              bool
	}
	plans := make([][]plan, ncl)
	total := 0
	for c := 0; c < ncl; c++ {
		for total < 40 && len(plans[c]) < 14 && t.Begin("op", 88) {
			var p plan
			p.key = t.Choice(nkeys, "op.key")
			p.kind = []int{0, 0, 1, 1, 2, 3, 3, 4, 4, 5, 6, 6}[t.Choice(12, "op.kind")] // 0 Put 1 PutStream 2 PutVec 3 Get 4 GetStream 5 Peek 6 Has
			if p.kind == 1 || p.kind == 2 {
				np := t.Choice(4, "op.npieces")
				for j := 0; j < np; j++ {
					p.pieces = append(p.pieces, t.Choice(len(w.cont[p.key])+1, "op.split"))
				}
				sort.Ints(p.pieces)
			}
			if p.kind == 1 {
				p.end = []int{0, 0, 0, 0, 1, 2}[t.Choice(6, "op.end")]
			}
			p.chunk = []int{1, 5, 300, 1 << 16}[t.Choice(4, "op.chunk")]
			p.scribble = t.Pct(70, "op.scribble")
			plans[c] = append(plans[c], p)
			total++
			t.End()
		}
	}
	w.faulty, w.ncl = faulty, ncl
	if faulty && w.d != nil {
		nf := 1 + t.Choice(3, "fault.n")
		w.d.ErrAt = map[int]int{}
		for i := 0; i < nf; i++ {
			w.d.ErrAt[3+t.Choice(150, "fault.at")] = t.Choice(6, "fault.variant")
		}
	}
	s.Log.Add(fmt.Sprintf("CFG backend=%s keys=%d clients=%d faulty=%v", w.bname, nkeys, ncl, faulty))
	for i, k := range w.keys {
		s.Log.Add(fmt.Sprintf("KEY %d class=%s key=%q len(content)=%d", i, w.kcls[i], trunc(k), len(w.cont[i])))
	}

	for c := 0; c < ncl; c++ {
		c := c
		s.Go(fmt.Sprintf("client%d", c), func() {
			for _, p := range plans[c] {
				s.Yield("op")
				w.do(c, p.kind, p.key, p.pieces, p.end, p.chunk, p.scribble)
			}
		})
	}
	s.Run()
	for _, tk := range s.Finished {
		if tk.Panic != nil {
			o.Fail("panic", w.bname0(), "client panicked in store code: %v\n%s", tk.Panic, tk.Stack)
		}
	}
	// quiescent read-back of every key by every read form, fault-free
	if w.d != nil {
		w.d.Revive()
	}
	for k := range w.keys {
		for _, kind := range []int{6, 3, 4, 5} {
			w.do(99, kind, k, nil, 0, 1<<16, false)
		}
	}
	w.judge(faulty)

	o.Events = s.Seq
	o.Capped = s.Capped
	o.LogHash = s.Log.H
	o.Log = s.Log.Lines
	st.Inc("runs")
	st.Inc("runs.backend." + w.bname0())
	st.Add("events", int64(s.Seq))
	st.Add("ops", int64(len(w.hist)))
	if faulty {
		st.Inc("runs.faulty")
	}
	if w.d != nil {
		st.AddMap("fired.", w.d.Fired)
		st.Add("fs_calls", int64(w.d.NCalls()))
	}
	if ncl > 1 {
		st.Distinct("interleaving", s.IHash)
	}
	return o
}

// sig names what fails coarsely: backend family and key class (never an op, seed or path).
func (w *world) sig(k int) string {
	c := w.kcls[k]
	switch {
	case w.keys[k] == "":
		c = "empty"
	case strings.HasPrefix(c, "cid-identity-of"):
		c = "cid-digest-alias"
	case strings.HasPrefix(c, "cid"):
		c = "cid-binary"
	case strings.HasPrefix(c, "adversarial"):
		c = "adversarial-string"
	}
	return w.bname0() + " key-class=" + c
}

func (w *world) bname0() string {
	return []string{"memstore", "cidlink.Memory", "fsstore", "fsstore"}[w.backend]
}

func trunc(s string) string {
	if len(s) > 48 {
		return s[:48] + fmt.Sprintf("...(%d bytes)", len(s))
	}
	return s
}

var mhTypes = []uint64{mh.SHA2_256, mh.SHA2_512, mh.SHA3_256, mh.BLAKE2B_MIN + 31, mh.IDENTITY}

func cidKey(t *sim.Tape, content []byte, forMem bool) (string, string, datamodel.Link) {
	ver := uint64(t.Choice(2, "cid.version"))
	codec := []uint64{0x71, 0x0129, 0x55, 0x70}[t.Choice(4, "cid.codec")]
	mht := mhTypes[t.Choice(len(mhTypes), "cid.mh")]
	if mht == mh.IDENTITY && len(content) > 200 {
		mht = mh.SHA2_256
	}
	if ver == 0 {
		codec, mht = 0x70, mh.SHA2_256
	}
	p := cid.Prefix{Version: ver, Codec: codec, MhType: mht, MhLength: -1}
	c, err := p.Sum(content)
	if err != nil {
		p = cid.Prefix{Version: 1, Codec: 0x55, MhType: mh.SHA2_256, MhLength: -1}
		c, _ = p.Sum(content)
	}
	l := cidlink.Link{Cid: c}
	return l.Binary(), fmt.Sprintf("cidv%d-mh%x", ver, mht), l
}

var adversarial = []string{"a..b", "v1..0", "...", "..z", "", "/", "..", "../../x", "../x", "a/b", "a", "a/./b", "a//b", "/etc/passwd", "x\x00y", "\x00", ".", "./x", "..x", "x/..", "x/../../../y",
	"AbC", "aBc", ".temp", ".temp/x", "00", "0000", "~", "a b", "\xff\xfe", "\n", "con", "x/"}

func (w *world) genKey(i int, content []byte) (string, string, datamodel.Link) {
	t := w.t
	if w.backend == 1 {
		return cidKey(t, content, true)
	}
	if i > 0 && t.Pct(20, "key.sibling") {
		// differs from an earlier key only at the head, only at the tail, or only in case
		prev := w.keys[t.Choice(i, "key.sib.of")]
		if len(prev) > 0 {
			b := []byte(prev)
			switch t.Choice(4, "key.sib.how") {
			case 0:
				b[0] ^= byte(1 + t.Choice(255, "key.sib.x"))
			case 1:
				b[len(b)-1] ^= byte(1 + t.Choice(255, "key.sib.x"))
			case 2:
				b = append(b, byte(t.Choice(256, "key.sib.x")))
			case 3:
				b = b[:len(b)-1]
			}
			return string(b), "sibling", nil
		}
	}
	switch c := t.Choice(10, "key.class"); {
	case c < 5:
		return cidKey(t, content, false)
	case c < 8:
		return adversarial[t.Choice(len(adversarial), "key.adv")], "adversarial", nil
	case c == 8:
		// very long
		n := 200 + t.Choice(200, "key.longlen")
		return string(t.Sub("key.long").Bytes(n)), "long-binary", nil
	default:
		// random short binary, biased to path-significant bytes
		n := 1 + t.Choice(9, "key.binlen")
		b := make([]byte, n)
		for j := range b {
			b[j] = []byte{0, '/', '.', '.', 'a', 'b', 'A', 0xff, '\\', ' '}[t.Choice(10, "key.binbyte")]
		}
		return string(b), "binary-pathy", nil
	}
}

func (w *world) calls() int {
	if w.d != nil {
		return w.d.NCalls()
	}
	return 0
}

var ctx = context.Background()

func (w *world) do(client, kind, k int, pieces []int, end, chunk int, scribble bool) {
	if len(w.cont[k]) > 1<<16 && chunk < 300 {
		chunk = 1 << 12 // a large block is not read a byte at a time (the run's step budget)
	}
	key, content := w.keys[k], w.cont[k]
	h := hop{client: client, key: k, inv: w.s.Stamp(), c0: w.calls()}
	names := []string{"Put", "PutStream", "PutVec", "Get", "GetStream", "Peek", "Has"}
	h.how = names[kind]
	w.s.Log.Add(fmt.Sprintf("INV c%d %s key#%d", client, h.how, k))
	if w.backend == 1 {
		w.doMem(&h, kind, k, pieces, end, chunk, scribble)
		return
	}
	if w.lnks[k] != nil && kind != 6 && w.keys[k] == w.lnks[k].Binary() && w.t.Pct(20, "op.via_linksystem_openers") {
		// the way a LinkSystem reaches a store: the openers that SetReadStorage / SetWriteStorage install
		h.how += "(via LinkSystem openers)"
		w.st.Inc("probe.via_linksystem_openers")
		w.doMem(&h, kind, k, pieces, end, chunk, scribble)
		return
	}
	store := w.store
	if w.perClient != nil && client > 0 {
		if w.perClient[client] == nil {
			x, err := w.another()
			if err != nil {
				if !w.faulty {
					w.o.Fail("init", "fsstore.Init", "a second Store value could not be initialised on the directory of a working store: %v", err)
				}
				x = w.store
			}
			w.perClient[client] = x
		}
		store = w.perClient[client]
	}
	switch kind {
	case 0:
		h.kind = "put"
		buf := append([]byte(nil), content...)
		if len(content) == 0 && scribble {
			buf = []byte{}
		}
		var err error
		if w.helper {
			err = storage.Put(ctx, store, key, buf)
		} else {
			err = store.Put(ctx, key, buf)
		}
		if scribble {
			scrib(buf)
			w.st.Inc("probe.buffer_scribbled")
		}
		h.ok, h.failed, h.err = err == nil, err != nil, err
	case 1:
		h.kind = "put"
		if _, ok := store.(storage.StreamingWritableStorage); !ok {
			w.st.Inc("probe.fallback_putstream")
		}
		wr, commit, err := storage.PutStream(ctx, store)
		if err != nil {
			h.failed = true
			break
		}
		prev := 0
		werr := false
		for _, sp := range append(append([]int(nil), pieces...), len(content)) {
			if sp == prev && sp != len(content) {
				continue
			}
			if len(content) == 0 && scribble {
				break // the empty block as a stream that is never written to
			}
			buf := append([]byte(nil), content[prev:sp]...)
			if _, err := wr.Write(buf); err != nil {
				werr = true
				break
			}
			if scribble {
				scrib(buf) // io.Writer must not retain p
			}
			prev = sp
			w.s.Yield("stream.piece")
		}
		if werr && end == 0 {
			end = 1
		}
		if key == "" && end == 0 {
			// committing the zero string IS the documented abort: through a
			// WriteCommitter the empty key cannot be put, by contract
			end = 1
		}
		switch end {
		case 0:
			err := commit(key)
			h.ok, h.failed, h.err = err == nil, err != nil, err
		case 1:
			commit("")
			h.kind = "abort"
		case 2:
			h.kind = "abort"
		}
	case 2:
		h.kind = "put"
		if _, ok := store.(storage.VectorWritableStorage); !ok {
			w.st.Inc("probe.fallback_putvec")
		}
		// The vector's elements are cut from ONE arena (what a caller with a scratch buffer or an
		// arena allocator hands over): laid out in a tape-chosen order, each element a sub-slice
		// whose capacity runs on into its neighbours. They do not overlap; a store must only read them.
		var bounds [][2]int
		prev := 0
		for _, sp := range append(append([]int(nil), pieces...), len(content)) {
			bounds = append(bounds, [2]int{prev, sp})
			prev = sp
		}
		order := make([]int, len(bounds))
		for i := range order {
			order[i] = i
		}
		if scribble { // reuse the flag as "arena layout permuted"
			for i := len(order) - 1; i > 0; i-- {
				j := w.t.Choice(i+1, "vec.perm")
				order[i], order[j] = order[j], order[i]
			}
			w.st.Inc("probe.putvec_arena_permuted")
		}
		arena := make([]byte, 0, len(content)+16)
		offs := make([]int, len(bounds))
		for _, bi := range order {
			offs[bi] = len(arena)
			arena = append(arena, content[bounds[bi][0]:bounds[bi][1]]...)
		}
		arena = arena[:cap(arena)]
		vec := make([][]byte, len(bounds))
		for bi, b := range bounds {
			vec[bi] = arena[offs[bi] : offs[bi]+(b[1]-b[0])]
		}
		if len(content) == 0 && len(pieces) == 0 {
			vec = nil // the empty block as a vector without elements
		}
		err := storage.PutVec(ctx, store, key, vec)
		if !scribble && w.t.Pct(30, "vec.again") {
			// the caller puts the SAME vector once more (a retry after an error, or an idempotent re-put):
			// a put only reads what it is handed, so the second call stores the same content
			w.st.Inc("probe.putvec_same_vector_twice")
			w.s.Yield("vec.again")
			if err2 := storage.PutVec(ctx, store, key, vec); err2 == nil {
				err = nil
			}
		}
		if scribble {
			for _, v := range vec {
				scrib(v)
			}
		}
		h.ok, h.failed, h.err = err == nil, err != nil, err
	case 3:
		h.kind = "read"
		var b []byte
		var err error
		if w.helper {
			b, err = storage.Get(ctx, store, key)
		} else {
			b, err = store.Get(ctx, key)
		}
		h.ok = err == nil
		if err == nil {
			w.checkBytes(&h, b, content)
			if scribble {
				// what Get returns is the caller's own copy: writing into it must not reach the store
				scrib(b)
				w.st.Inc("probe.get_result_scribbled")
			} else if len(w.kept) < 32 {
				w.kept = append(w.kept, keptGet{b, sim.HashString(string(b)), k})
			}
		} else {
			w.absent(&h, err)
		}
	case 4:
		h.kind = "read"
		if _, ok := store.(storage.StreamingReadableStorage); !ok {
			w.st.Inc("probe.fallback_getstream")
		}
		rc, err := storage.GetStream(ctx, store, key)
		if err != nil {
			w.absent(&h, err)
			break
		}
		var got []byte
		buf := make([]byte, chunk)
		var rerr error
		for {
			n, e := rc.Read(buf)
			got = append(got, buf[:n]...)
			if e != nil {
				if e != io.EOF {
					rerr = e
				}
				break
			}
			w.s.Yield("read.piece")
		}
		rc.Close()
		if rerr != nil {
			// a failed read says nothing about presence
			h.kind = "readerr"
			break
		}
		h.ok = true
		w.checkBytes(&h, got, content)
	case 5:
		h.kind = "read"
		if _, ok := store.(storage.PeekableStorage); !ok {
			w.st.Inc("probe.fallback_peek")
		}
		b, closer, err := storage.Peek(ctx, store, key)
		h.ok = err == nil
		if err == nil {
			w.checkBytes(&h, b, content)
			if closer != nil {
				closer.Close()
			}
		} else {
			w.absent(&h, err)
		}
	case 6:
		h.kind = "read"
		var has bool
		var err error
		if w.helper {
			has, err = storage.Has(ctx, store, key)
		} else {
			has, err = store.Has(ctx, key)
		}
		if err != nil {
			h.kind = "readerr"
		}
		h.ok = has
	}
	w.finish(h)
}

func (w *world) finish(h hop) {
	h.ret = w.s.Stamp()
	h.c1 = w.calls()
	w.hist = append(w.hist, h)
	w.s.Log.Add(fmt.Sprintf("RET c%d %s key#%d kind=%s ok=%v failed=%v", h.client, h.how, h.key, h.kind, h.ok, h.failed))
}

func scrib(b []byte) {
	for i := range b {
		b[i] ^= 0x5a
	}
}

func (w *world) checkBytes(h *hop, got, want []byte) {
	if bytes.Equal(got, want) {
		return
	}
	what := fmt.Sprintf("%d bytes, want %d", len(got), len(want))
	for j, c := range w.cont {
		if bytes.Equal(got, c) {
			what = fmt.Sprintf("the content of a different key (#%d, class %s)", j, w.kcls[j])
		}
	}
	sc := append([]byte(nil), want...)
	scrib(sc)
	if bytes.Equal(got, sc) {
		what = "the bytes the caller scribbled into its own buffer after the put returned (no insulation)"
	}
	w.o.Fail("wrong-bytes", w.sig(h.key), "%s on %s for key %q returned %s", h.how, w.bname, trunc(w.keys[h.key]), what)
}

// cidlink.Memory is reached through its OpenRead / OpenWrite (what a LinkSystem calls).
func (w *world) doMem(h *hop, kind, k int, pieces []int, end, chunk int, scribble bool) {
	lnk, content := w.lnks[k], w.cont[k]
	switch kind {
	case 0, 1, 2:
		h.kind = "put"
		wr, commit, err := w.openW(linking.LinkContext{Ctx: ctx})
		if err != nil {
			h.failed = true
			break
		}
		prev := 0
		werr := false
		for _, sp := range append(append([]int(nil), pieces...), len(content)) {
			if len(content) == 0 && scribble {
				break
			}
			buf := append([]byte(nil), content[prev:sp]...)
			if _, err := wr.Write(buf); err != nil {
				werr = true
				break
			}
			if scribble {
				scrib(buf)
			}
			prev = sp
			w.s.Yield("stream.piece")
		}
		if werr || (kind == 1 && end != 0) {
			// a writer that failed is not committed (what LinkSystem.Store does); an abandoned one neither
			h.kind = "abort"
			break
		}
		err = commit(lnk)
		h.ok, h.failed, h.err = err == nil, err != nil, err
	default:
		h.kind = "read"
		r, err := w.openR(linking.LinkContext{Ctx: ctx}, lnk)
		if err != nil {
			w.absent(h, err)
			break
		}
		var got []byte
		buf := make([]byte, chunk)
		failed := false
		for {
			n, e := r.Read(buf)
			got = append(got, buf[:n]...)
			if e != nil {
				failed = e != io.EOF
				break
			}
			w.s.Yield("read.piece")
		}
		if c, ok := r.(io.Closer); ok {
			c.Close()
		}
		if failed {
			h.kind = "readerr" // a read error is an error, not data; it says nothing about presence
			break
		}
		h.ok = true
		w.checkBytes(h, got, content)
	}
	w.finish(*h)
}

// judge applies the write-once-map model to the recorded history.
func (w *world) judge(faulty bool) {
	o := w.o
	// direct interval rule
	nontrivial := false
	for _, r := range w.hist {
		if r.kind != "read" {
			continue
		}
		started, done := false, false
		conc := false
		for _, p := range w.hist {
			if p.key != r.key || p.kind != "put" {
				continue
			}
			if p.inv < r.ret {
				started = true
			}
			if p.ok && p.ret < r.inv {
				done = true
			}
			if p.inv < r.ret && p.ret > r.inv {
				conc = true
			}
		}
		if conc {
			w.st.Inc("probe.concurrent_put_read")
		}
		if r.ok && !started {
			o.Fail("phantom-key", w.sig(r.key), "%s on %s reports key %q present although no put of it was ever started", r.how, w.bname, trunc(w.keys[r.key]))
		}
		if !r.ok && done {
			o.Fail("lost-put", w.sig(r.key), "%s on %s reports key %q absent although a put of it had returned success", r.how, w.bname, trunc(w.keys[r.key]))
		}
		if r.ok && done {
			nontrivial = true
		}
	}
	for _, p := range w.hist {
		if p.failed {
			w.st.Inc("probe.failed_put")
			if errors.Is(p.err, syscall.ENAMETOOLONG) {
				// the filesystem's name-length limit, not the store's doing
				w.st.Inc("probe.put_enametoolong")
			} else if !faulty && w.ncl == 1 {
				// sequential history on a healthy store: a store that refuses the put is not a map for that key.
				// (With concurrent writers fsstore may lose a mkdir race and report EEXIST: an availability
				// matter the property does not speak about.)
				o.Fail("put-failed", w.sig(p.key), "%s on %s failed for key %q on a healthy store: %v", p.how, w.bname, trunc(w.keys[p.key]), p.err)
			}
		}
	}
	for _, kg := range w.kept {
		if sim.HashString(string(kg.b)) != kg.h {
			o.Fail("returned-bytes-changed", w.sig(kg.key), "the slice an earlier Get returned for key %q was changed by later store operations (Get is documented to return a safe copy)", trunc(w.keys[kg.key]))
		}
	}
	// disk-level observations
	if w.d != nil {
		if len(w.d.Escapes) > 0 {
			o.Fail("escape", "fsstore touches a path outside its base directory", "on %s: %v", w.bname, w.d.Escapes)
		}
		dest := map[string]int{}
		for _, p := range w.hist {
			if p.kind != "put" || !p.ok {
				continue
			}
			for i := p.c0; i < p.c1 && i < len(w.d.Trace); i++ {
				c := w.d.Trace[i]
				if c.Op == "rename" && c.Err == "" && c.Task == taskOf(p.client) {
					if prev, ok := dest[c.Path2]; ok && prev != p.key {
						o.Fail("alias-path", "fsstore commits two different keys to one path", "keys %q and %q are both committed to %s on %s", trunc(w.keys[prev]), trunc(w.keys[p.key]), c.Path2, w.bname)
					}
					dest[c.Path2] = p.key
				}
			}
		}
	}
	// porcupine: same history against a nondeterministic write-once register per key
	if len(w.hist) <= 120 {
		var ops []porcupine.Operation
		end := int64(w.s.Seq + 10)
		for _, h := range w.hist {
			switch h.kind {
			case "put":
				op := porcupine.Operation{ClientId: h.client % 100, Input: pin{h.key, true, h.failed}, Call: int64(h.inv), Return: int64(h.ret)}
				if h.failed {
					op.Return = end // may take effect any time later, or never
				}
				ops = append(ops, op)
			case "read":
				ops = append(ops, porcupine.Operation{ClientId: h.client % 100, Input: pin{h.key, false, false}, Output: h.ok, Call: int64(h.inv), Return: int64(h.ret)})
			}
		}
		res := porcupine.CheckOperationsTimeout(regModel, ops, 10*time.Second)
		w.st.Inc("probe.porcupine_checked")
		switch res {
		case porcupine.Illegal:
			if len(o.Viol) == 0 {
				o.Fail("not-linearizable", w.bname0(), "history on %s is not linearizable against a write-once map (and the direct rule did not explain why)", w.bname)
			}
		case porcupine.Unknown:
			w.st.Inc("porcupine.inconclusive")
		}
	}
	if nontrivial {
		var sb strings.Builder
		sb.WriteString(w.bname)
		for _, h := range w.hist {
			fmt.Fprintf(&sb, "|%s,%s,%v", h.how, w.kcls[h.key], h.ok)
		}
		w.st.Distinct("history", sim.HashString(sb.String()))
		var ops []string
		for i, h := range w.hist {
			if i < 30 {
				ops = append(ops, fmt.Sprintf("c%d %s(key#%d %s)->%v [%d,%d]", h.client, h.how, h.key, w.kcls[h.key], h.ok, h.inv, h.ret))
			}
		}
		w.st.Sample(map[string]interface{}{"backend": w.bname, "history": ops})
	}
}

func taskOf(client int) int {
	if client == 99 {
		return -1
	}
	return client
}

type pin struct {
	key   int
	put   bool
	maybe bool
}

var regModel = (&porcupine.NondeterministicModel{
	Partition: func(h []porcupine.Operation) [][]porcupine.Operation {
		m := map[int][]porcupine.Operation{}
		var ks []int
		for _, op := range h {
			k := op.Input.(pin).key
			if _, ok := m[k]; !ok {
				ks = append(ks, k)
			}
			m[k] = append(m[k], op)
		}
		sort.Ints(ks)
		var out [][]porcupine.Operation
		for _, k := range ks {
			out = append(out, m[k])
		}
		return out
	},
	Init: func() []interface{} { return []interface{}{false} },
	Step: func(state, input, output interface{}) []interface{} {
		in := input.(pin)
		present := state.(bool)
		if in.put {
			if in.maybe {
				if present {
					return []interface{}{true}
				}
				return []interface{}{false, true}
			}
			return []interface{}{true}
		}
		if output.(bool) == present {
			return []interface{}{present}
		}
		return nil
	},
}).ToModel()

// Unit: one seeded history.
func (S) Unit(u *scen.Unit) { u.Exec(nil) }

// Demos: fixed demonstrations of the recorded C17 findings (see known_findings.jsonl).
func (S) Demos() map[string]func() *sim.Violation {
	mk := func(backend string) (rw, func()) {
		if backend == "memstore" {
			return basicOnly{&memstore.Store{}}, func() {}
		}
		root := filepath.Join(shmRoot(), fmt.Sprintf("demo%d", atomic.AddInt64(&runCounter, 1)))
		os.MkdirAll(root, 0777)
		fs := &fsstore.Store{}
		if err := fs.InitDefaults(root); err != nil {
			panic(err)
		}
		return fs, func() { os.RemoveAll(root) }
	}
	lost := func(backend string, vec bool) func() *sim.Violation {
		return func() *sim.Violation {
			st, done := mk(backend)
			defer done()
			var err error
			if vec {
				err = storage.PutVec(ctx, st, "", [][]byte{[]byte("con"), []byte("tent")})
			} else {
				err = st.Put(ctx, "", []byte("content"))
			}
			if err != nil {
				return nil
			}
			has, _ := st.Has(ctx, "")
			_, gerr := st.Get(ctx, "")
			if !has || gerr != nil {
				return &sim.Violation{Rule: "lost-put", Sig: backend + " key-class=empty",
					Msg: fmt.Sprintf("put of the empty key returned nil, then Has=%v Get err=%v", has, gerr)}
			}
			return nil
		}
	}
	return map[string]func() *sim.Violation{
		"empty-key-lost-put-fsstore":  lost("fsstore", false),
		"empty-key-lost-put-memstore": lost("memstore", true),
		"empty-key-phantom-fsstore": func() *sim.Violation {
			st, done := mk("fsstore")
			defer done()
			// a 1-byte key escapes to 2 characters and lands in shard directory "00",
			// which is also what the empty key's path resolves to
			if err := st.Put(ctx, "k", []byte("v")); err != nil {
				return nil
			}
			if has, _ := st.Has(ctx, ""); has {
				return &sim.Violation{Rule: "phantom-key", Sig: "fsstore key-class=empty", Msg: "Has(\"\") is true although the empty key was never put (it stats a shard directory)"}
			}
			return nil
		},
	}
}

// shardFlat is a user-defined sharding function: no shard directories at all.
func shardFlat(key string, shards *[]string) { *shards = append(*shards, key) }
