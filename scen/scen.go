// Package scen defines what a per-property scenario provides to the driver.
package scen

import (
	"verif/sim"
)

// Scenario decides one property.
type Scenario interface {
	ID() string
	Level() string // "exploration" | "fault_enumeration"
	// RunTape executes ONE simulated run that is a pure function of the tape
	// (including enumeration dimensions, which the enumerator forces by label).
	RunTape(t *sim.Tape, st *sim.Stats, keepLog bool) *sim.Outcome
	// Unit explores one seeded (workload, schedule) pair: a fault-free run
	// and then every enumerated / seeded faulted variant of it.
	Unit(u *Unit)
	Info() Info
}

type Info struct {
	Rule          string            // how cases are generated and what counts as distinct & non-trivial
	DistinctSet   string            // name of the Stats set counted as distinct_nontrivial
	Assumptions   []string          // what the check assumes or trusts
	Components    map[string]string // component -> "real" | "stub: ..."
	QuickUnits    int
	ThoroughUnits int
	QuickSecs     int
	ThoroughSecs  int
	ProbeKeys     []string // counters that should be non-zero (probes_zero otherwise)
	EventsKey     string
	ShrinkBudget  int // 0: driver default
}

// Unit is the driver-side context of one unit.
type Unit struct {
	Seed uint64
	Tier string
	St   *sim.Stats
	// Exec runs RunTape on a fresh tape for Seed with the given forced
	// choices, and hands violations to the driver (confirm, shrink, report).
	Exec func(forced map[string]int) *sim.Outcome
	// Expired reports that the time budget is used up: enumerations stop early.
	Expired func() bool
}

// Demonstrator is implemented by scenarios that carry fixed, tape-independent
// demonstrations of recorded findings: each runs the specific failing input or
// history against the real code and returns the violation it shows, or nil
// when the tree no longer exhibits it.
type Demonstrator interface {
	Demos() map[string]func() *sim.Violation
}
