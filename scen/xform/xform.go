// Package xform decides C16: transforms are pure functional updates, also
// across links.
//
// World: 1-3 client tasks, each owning a root that evolves through a history
// of transforms, over ONE shared content-addressed store behind simstore.
// Reference: an abstract tree in which every link carries its expanded target
// (expansion uses LinkSystem.Load as an instrument); a ~100-line reference
// updater defines what each transform must produce.
package xform

import (
	"errors"
	"fmt"
	"math"
	"sort"
	"strconv"
	"strings"

	ipld "github.com/ipld/go-ipld-prime"
	_ "github.com/ipld/go-ipld-prime/codec/dagcbor"
	_ "github.com/ipld/go-ipld-prime/codec/dagjson"
	"github.com/ipld/go-ipld-prime/datamodel"
	"github.com/ipld/go-ipld-prime/linking"
	cidlink "github.com/ipld/go-ipld-prime/linking/cid"
	"github.com/ipld/go-ipld-prime/node/basicnode"
	"github.com/ipld/go-ipld-prime/node/bindnode"
	"github.com/ipld/go-ipld-prime/schema"
	"github.com/ipld/go-ipld-prime/storage/memstore"
	"github.com/ipld/go-ipld-prime/traversal"
	"github.com/ipld/go-ipld-prime/traversal/selector"
	"github.com/ipld/go-ipld-prime/traversal/selector/builder"

	"verif/gen"
	"verif/model"
	"verif/scen"
	"verif/scen/linksys"
	"verif/sim"
	"verif/simstore"
)

// Typed roots: a reflection-bound Go value with a typed map (no duplicate-key
// check of its own), a typed list and a nested struct.
type TMap struct {
	Keys   []string
	Values map[string]int64
}
type TInner struct {
	X int64
	Y string
}
type TRoot struct {
	M  TMap
	L  []string
	S  TInner
	ML TMapL
}

// TMapL is a typed map whose values are typed lists.
type TMapL struct {
	Keys   []string
	Values map[string][]string
}

// newTypedTS compiles the typed roots' schema; every simulated world gets its own.
func newTypedTS() *schema.TypeSystem {
	ts, err := ipld.LoadSchemaBytes([]byte(`
type TMap {String:Int}
type TInner struct { X Int  Y String }
type TStrs [String]
type TMapL {String:TStrs}
type TRoot struct { M TMap  L [String]  S TInner  ML TMapL }`))
	if err != nil {
		panic(err)
	}
	return ts
}

type S struct{}

func (S) ID() string    { return "C16" }
func (S) Level() string { return "exploration" }

func (S) Info() scen.Info {
	return scen.Info{
		Rule: "unit = one seeded history: 1-3 interleaved clients, each applying 3-8 transforms in sequence to its own evolving root over one shared store (graphs of 1-6 blocks with shared links): FocusedTransform replace / delete from map / delete from list / insert missing map key / list append / create parents on or off / identity / target below one or more links / error cases, and WalkTransforming with a seeded selector on link-free roots; a second profile injects read / open / write / commit faults on the blocks a transform touches. " +
			"distinct_nontrivial counts distinct hash(sequence of (transform kind, path depth, links crossed, outcome)) over histories with at least one successful transform below a link or a sequence of >=3 successful transforms. Later additions: WalkTransforming across links judged on content (loader skipping links, visit-once), specific prototype choosers, read-back of every focused transform through Get and Focus, redirect blocks.",
		DistinctSet: "history",
		Assumptions: []string{
			"LinkSystem.Load is used as an instrument to expand graphs; block hashing is re-checked independently",
			"an implementation that does not rewrite an unchanged block is not penalised (blocks written must be a subset of the blocks on the target path)",
			"deleting a missing key, and appending to a list with missing parents while createParents is false, are not generated (the contract does not pin them down)",
			"under injected storage faults a transform may fail; then it must return an error and no node, leave the input as it was and leave every previously readable link readable",
			"WalkTransforming is exercised on link-free roots in the judged profile; across links it is covered by a recorded finding",
		},
		Components: map[string]string{
			"traversal/focus.go, traversal/walk.go (transforms), traversal/selector, linking, codecs, memstore, cidlink.Memory": "real",
			"block streams":        "stub: simstore (yields, chunking, optional read/open/write/commit faults)",
			"goroutine scheduling": "stub: seeded one-at-a-time scheduler; yields at every storage seam call and inside callbacks",
			"reference model":      "abstract tree with expanded links + reference updater (replace / insert / delete / append / create-parents / transparent link crossing)",
		},
		QuickUnits: 50000, ThoroughUnits: 3000000, QuickSecs: 240, ThoroughSecs: 1200,
		ProbeKeys: []string{"probe.walk_transform_selector_across_links", "probe.walk_transform_selector_visit_once", "probe.link_system_with_node_reifier", "probe.read_back_through_get_and_focus", "probe.walk_transform_across_links", "probe.walk_transform_loader_skips", "probe.walk_transform_visit_once", "probe.chooser_map_prototype", "probe.below_link", "probe.below_two_links", "probe.delete_map", "probe.insert_key", "probe.append", "probe.create_parents", "probe.identity", "probe.expected_error", "probe.typed_transform", "probe.replacement_from_other_implementation", "probe.selector_reused", "probe.float_zero_sign_flipped_below_link", "probe.walk_transform", "probe.walk_transform_selector_matched", "probe.int_backed_segment", "probe.fault_made_transform_fail", "probe.fault_survived", "probe.history_ge_3"},
		EventsKey: "events",
	}
}

// ---- expanded abstract trees ----
// A link node in an expanded tree keeps its binary in S and, when the block
// could be loaded, its expanded content in Vals[0].

type world struct {
	t          *sim.Tape
	s          *sim.Sim
	o          *sim.Outcome
	st         *sim.Stats
	lsys       linking.LinkSystem
	tts        *schema.TypeSystem // this world's own compiled schema of the typed roots
	seam       *simstore.Seam
	raw        func(l datamodel.Link) ([]byte, bool)
	cfg        *traversal.Config
	faulty     bool
	skipTasks  map[int]map[string]bool // per task: links its loader declines (traversal.SkipMe) during the current walking transform
	faultTasks map[int]bool            // tasks currently inside a transform (faults hit only their storage calls, never the harness's instrument loads)
}

func (w *world) expand(n datamodel.Node, depth int) (*model.V, error) {
	v, err := model.FromNode(n)
	if err != nil {
		return nil, err
	}
	return w.expandV(v, depth)
}

func (w *world) expandV(v *model.V, depth int) (*model.V, error) {
	if depth > 12 {
		return nil, fmt.Errorf("expansion too deep")
	}
	switch v.K {
	case model.Link:
		c := *v
		n, err := w.lsys.Load(linking.LinkContext{}, gen.LinkFromBin(v.S), basicnode.Prototype.Any)
		if err != nil {
			return &c, nil // dangling: stays a bare link
		}
		x, err := w.expand(n, depth+1)
		if err != nil {
			return nil, err
		}
		c.Vals = []*model.V{x}
		return &c, nil
	case model.List, model.Map:
		c := *v
		c.Vals = make([]*model.V, len(v.Vals))
		for i, x := range v.Vals {
			e, err := w.expandV(x, depth)
			if err != nil {
				return nil, err
			}
			c.Vals[i] = e
		}
		return &c, nil
	}
	return v, nil
}

// eqExpanded compares expanded trees; a loaded link is compared by content, not by its binary.
func eqExpanded(a, b *model.V) bool {
	if a == nil || b == nil {
		return a == b
	}
	if a.K != b.K {
		return false
	}
	switch a.K {
	case model.Link:
		if len(a.Vals) != len(b.Vals) {
			return false
		}
		if len(a.Vals) == 1 {
			return eqExpanded(a.Vals[0], b.Vals[0])
		}
		return a.S == b.S
	case model.List, model.Map:
		if len(a.Vals) != len(b.Vals) {
			return false
		}
		for i := range a.Vals {
			if a.K == model.Map && a.Keys[i] != b.Keys[i] {
				return false
			}
			if !eqExpanded(a.Vals[i], b.Vals[i]) {
				return false
			}
		}
		return true
	}
	return model.Equal(a, b)
}

// sameContent compares two values up to the entry order of maps (blocks rewritten below a link
// come back in their codec's canonical order; order itself is judged on the whole result).
func sameContent(a, b *model.V) bool {
	if a == nil || b == nil {
		return a == b
	}
	return model.Equal(a.Canon(model.SortLexical), b.Canon(model.SortLexical))
}

func noSlashKeys(v *model.V) {
	for i, k := range v.Keys {
		if k == "/" {
			v.Keys[i] = "slash"
		}
	}
	for _, x := range v.Vals {
		noSlashKeys(x)
	}
}

// redirectAt: is the position, in the expanded tree, a link whose block's root is itself a link
// (a redirect block)? A walk that crosses the first link is handed that root, a link node.
func redirectAt(e *model.V, segs []string) bool {
	cur := e
	for _, sg := range segs {
		for cur != nil && cur.K == model.Link && len(cur.Vals) == 1 {
			cur = cur.Vals[0]
		}
		if cur == nil {
			return false
		}
		switch cur.K {
		case model.Map:
			cur = cur.Get(sg)
		case model.List:
			ix, err := strconv.Atoi(sg)
			if err != nil || ix < 0 || ix >= len(cur.Vals) {
				return false
			}
			cur = cur.Vals[ix]
		default:
			return false
		}
	}
	return cur != nil && cur.K == model.Link && len(cur.Vals) == 1 && cur.Vals[0].K == model.Link
}

// hasExplicitInterests: does a selector spec (as data) contain a fields, index or range clause?
func hasExplicitInterests(v *model.V) bool {
	if v == nil {
		return false
	}
	if v.K == model.Map {
		for _, k := range v.Keys {
			if k == "f" || k == "i" || k == "r" {
				return true
			}
		}
	}
	for _, x := range v.Vals {
		if hasExplicitInterests(x) {
			return true
		}
	}
	return false
}

// flatten replaces every loaded link of an expanded tree by its content (dangling links stay).
func flatten(v *model.V) *model.V {
	if v == nil {
		return nil
	}
	if v.K == model.Link && len(v.Vals) == 1 {
		return flatten(v.Vals[0])
	}
	c := *v
	if len(v.Vals) > 0 && v.K != model.Link {
		c.Vals = make([]*model.V, len(v.Vals))
		for i, x := range v.Vals {
			c.Vals[i] = flatten(x)
		}
	}
	return &c
}

// pathMark is the reference for the path-marking walk over an expanded tree: every int becomes a
// string naming its path; a loaded link is replaced by its marked content (links are transparent in
// paths). A block whose root IS a link is a scalar block to the walk (links are only crossed where
// they sit inside a map or list), so what lies behind such a redirect stays as it is.
func pathMark(v *model.V, pre []string, skip, seen map[string]bool) *model.V {
	switch v.K {
	case model.Link:
		if len(v.Vals) == 1 {
			if seen != nil {
				// visit-once: a link met before (walked, skipped or a redirect) is not crossed again
				if seen[v.S] {
					return flatten(v.Vals[0])
				}
				seen[v.S] = true
			}
			if v.Vals[0].K == model.Link || skip[v.S] {
				return flatten(v.Vals[0])
			}
			return pathMark(v.Vals[0], pre, skip, seen)
		}
		return v
	case model.Int:
		return model.StringV("int@" + strings.Join(pre, "/"))
	case model.Map, model.List:
		c := *v
		c.Vals = make([]*model.V, len(v.Vals))
		for i, x := range v.Vals {
			seg := strconv.Itoa(i)
			if v.K == model.Map {
				seg = v.Keys[i]
			}
			c.Vals[i] = pathMark(x, append(append([]string(nil), pre...), seg), skip, seen)
		}
		return &c
	}
	return v
}

// strip returns the raw (unexpanded) view.
func strip(v *model.V) *model.V {
	if v == nil {
		return nil
	}
	c := *v
	if v.K == model.Link {
		c.Vals = nil
		return &c
	}
	if len(v.Vals) > 0 {
		c.Vals = make([]*model.V, len(v.Vals))
		for i, x := range v.Vals {
			c.Vals[i] = strip(x)
		}
	}
	return &c
}

type action struct {
	kind   int      // 0 replace, 1 delete, 2 identity
	repl   *model.V // replacement value (link-free)
	create bool
}

var errRef = errors.New("reference: transform must fail")

// refUpdate is the reference semantics on an expanded tree. It returns the
// updated tree, the node the callback must have seen (nil for a missing
// position) and how many links the path crossed.
func refUpdate(e *model.V, segs []string, act action, crossed *int, seen **model.V) (*model.V, error) {
	if e != nil && e.K == model.Link {
		if len(segs) == 0 {
			// the target IS the link node: replaced / deleted as a value, not crossed
			return applyAct(e, act, seen)
		}
		if len(e.Vals) == 0 {
			return nil, errRef // cannot go below a link that does not load
		}
		*crossed++
		in, err := refUpdate(e.Vals[0], segs, act, crossed, seen)
		if err != nil {
			return nil, err
		}
		if in == nil {
			return nil, errRef
		}
		// the rewritten block goes through its codec, which sorts map keys
		mode := model.SortLenFirst
		if c, ok := gen.LinkFromBin(e.S).(cidlink.Link); ok && c.Prefix().Codec == 0x0129 {
			mode = model.SortLexical
		}
		return &model.V{K: model.Link, S: "<relinked>", Vals: []*model.V{canonBlock(in, mode)}}, nil
	}
	if len(segs) == 0 {
		return applyAct(e, act, seen)
	}
	seg, rest := segs[0], segs[1:]
	if e == nil {
		// missing parents are created as maps
		in, err := refUpdate(nil, rest, act, crossed, seen)
		if err != nil || in == nil {
			return nil, errRef
		}
		return model.MapV().Put(seg, in), nil
	}
	switch e.K {
	case model.Map:
		out := &model.V{K: model.Map}
		found := false
		for i, k := range e.Keys {
			if k != seg {
				out.Put(k, e.Vals[i])
				continue
			}
			found = true
			in, err := refUpdate(e.Vals[i], rest, act, crossed, seen)
			if err != nil {
				return nil, err
			}
			if in == nil {
				if len(rest) != 0 {
					return nil, errRef
				}
				continue // deleted
			}
			out.Put(k, in)
		}
		if !found {
			if len(rest) > 0 && !act.create {
				return nil, errRef
			}
			in, err := refUpdate(nil, rest, act, crossed, seen)
			if err != nil || in == nil {
				return nil, errRef
			}
			out.Put(seg, in)
		}
		return out, nil
	case model.List:
		out := &model.V{K: model.List}
		if seg == "-" {
			out.Vals = append(out.Vals, e.Vals...)
			in, err := refUpdate(nil, rest, act, crossed, seen)
			if err != nil || in == nil {
				return nil, errRef
			}
			out.Vals = append(out.Vals, in)
			return out, nil
		}
		ix, err := strconv.Atoi(seg)
		if err != nil || ix < 0 || ix >= len(e.Vals) || strconv.Itoa(ix) != seg {
			return nil, errRef
		}
		for i, x := range e.Vals {
			if i != ix {
				out.Vals = append(out.Vals, x)
				continue
			}
			in, err := refUpdate(x, rest, act, crossed, seen)
			if err != nil {
				return nil, err
			}
			if in == nil {
				if len(rest) != 0 {
					return nil, errRef
				}
				continue // removed
			}
			out.Vals = append(out.Vals, in)
		}
		return out, nil
	}
	return nil, errRef // a scalar is reached early
}

// canonBlock sorts the maps of one block (not of the blocks behind its links).
func canonBlock(v *model.V, mode int) *model.V {
	if v.K == model.Link {
		return v
	}
	c := *v
	if len(v.Vals) > 0 {
		c.Vals = make([]*model.V, len(v.Vals))
		for i, x := range v.Vals {
			c.Vals[i] = canonBlock(x, mode)
		}
	}
	if v.K == model.Map {
		// sort one level, keeping the already processed children
		tmp := &model.V{K: model.Map, Keys: append([]string(nil), v.Keys...), Vals: c.Vals}
		idx := make([]int, len(tmp.Keys))
		for i := range idx {
			idx[i] = i
		}
		sort.SliceStable(idx, func(a, b int) bool {
			ka, kb := tmp.Keys[idx[a]], tmp.Keys[idx[b]]
			if mode == model.SortLenFirst && len(ka) != len(kb) {
				return len(ka) < len(kb)
			}
			return ka < kb
		})
		c.Keys = make([]string, len(idx))
		vals := make([]*model.V, len(idx))
		for i, j := range idx {
			c.Keys[i], vals[i] = tmp.Keys[j], tmp.Vals[j]
		}
		c.Vals = vals
	}
	return &c
}

func applyAct(e *model.V, act action, seen **model.V) (*model.V, error) {
	*seen = e
	switch act.kind {
	case 1:
		return nil, nil
	case 2:
		if e == nil {
			return nil, errRef
		}
		return e, nil
	}
	return act.repl, nil
}

// allPaths enumerates paths of an expanded tree (crossing links transparently).
type pinfo struct {
	segs  []string
	links int
	k     model.Kind
	zero  bool // a float +0.0
}

func allPaths(e *model.V, pre []string, links int, out *[]pinfo) {
	if len(*out) > 80 || e == nil {
		return
	}
	if e.K == model.Link {
		if len(e.Vals) == 1 {
			// the link node itself is addressable; its content is reached by the same path
			*out = append(*out, pinfo{append([]string(nil), pre...), links, model.Link, false})
			inner := e.Vals[0]
			switch inner.K {
			case model.Map:
				for i, k := range inner.Keys {
					allPaths(inner.Vals[i], append(pre, k), links+1, out)
				}
			case model.List:
				for i, x := range inner.Vals {
					allPaths(x, append(pre, strconv.Itoa(i)), links+1, out)
				}
			}
		} else {
			*out = append(*out, pinfo{append([]string(nil), pre...), links, model.Link, false})
		}
		return
	}
	*out = append(*out, pinfo{append([]string(nil), pre...), links, e.K, e.K == model.Float && math.Float64bits(e.F) == 0})
	switch e.K {
	case model.Map:
		for i, k := range e.Keys {
			allPaths(e.Vals[i], append(pre, k), links, out)
		}
	case model.List:
		for i, x := range e.Vals {
			allPaths(x, append(pre, strconv.Itoa(i)), links, out)
		}
	}
}

func hasLinks(v *model.V) bool {
	if v.K == model.Link {
		return true
	}
	for _, x := range v.Vals {
		if hasLinks(x) {
			return true
		}
	}
	return false
}

func safe(f func()) (pan string) {
	defer func() {
		if r := recover(); r != nil {
			if _, ok := r.(interface{ IsStepCap() }); ok {
				panic(r)
			}
			pan = fmt.Sprint(r)
		}
	}()
	f()
	return ""
}

var kindNames = []string{"replace", "delete", "identity", "insert-key", "append", "create-parents", "missing-parents-refused", "walk-transform", "delete-list-element", "walk-transform-selector", "walk-transform-across-links"}

func (S) RunTape(t *sim.Tape, st *sim.Stats, keepLog bool) *sim.Outcome {
	o := &sim.Outcome{}
	s := sim.NewSim(t, sim.NewChanBaton())
	s.Log.Keep = keepLog
	s.MaxSteps = 400000
	s.MaxQ = []int{0, 3, 12}[t.Choice(3, "cfg.maxq")]
	w := &world{t: t, s: s, o: o, st: st, faultTasks: map[int]bool{}, skipTasks: map[int]map[string]bool{}, tts: newTypedTS()}
	w.lsys = cidlink.DefaultLinkSystem()
	if t.Bool("cfg.cidmem") {
		cm := &cidlink.Memory{}
		w.lsys.StorageReadOpener, w.lsys.StorageWriteOpener = cm.OpenRead, cm.OpenWrite
		w.raw = func(l datamodel.Link) ([]byte, bool) { b, ok := cm.Bag[string(l.(cidlink.Link).Hash())]; return b, ok }
	} else {
		ms := &memstore.Store{}
		w.lsys.SetReadStorage(ms)
		w.lsys.SetWriteStorage(ms)
		w.raw = func(l datamodel.Link) ([]byte, bool) { b, ok := ms.Bag[l.Binary()]; return b, ok }
	}
	w.seam = &simstore.Seam{S: s, T: t}
	w.seam.Wrap(&w.lsys)
	w.faulty = t.Pct(25, "cfg.faulty")
	w.seam.NextRead = func(l datamodel.Link) *simstore.ReadFault {
		f := &simstore.ReadFault{Err2At: -1, Chunk: []int{0, 0, 5}[t.Choice(3, "chunk")]}
		if w.skipTasks[s.Cur()][l.Binary()] {
			f.Kind, f.SkipErr = "skip", traversal.SkipMe{}
			return f
		}
		if w.faultTasks[s.Cur()] && t.Pct(12, "fault.read") {
			f.Kind = []string{"readerr", "openerr", "skip"}[t.Choice(3, "fault.read.kind")]
			f.SkipErr = traversal.SkipMe{} // a loader that declines a block: for a transform that needs it, that is a failure
			f.Pos = t.Choice(64, "fault.read.pos")
			f.ErrSticky = true
		}
		return f
	}
	w.seam.NextWrite = func() *simstore.WriteFault {
		if w.faultTasks[s.Cur()] && t.Pct(15, "fault.write") {
			return &simstore.WriteFault{Kind: []string{"writeerr", "commiterr"}[t.Choice(2, "fault.write.kind")], AtWrite: t.Choice(3, "fault.write.at")}
		}
		return nil
	}
	// the prototype chooser either always answers Any, or (as applications that know their data do)
	// the specific map / list prototype for blocks that are a dag-cbor map / list
	specificChooser := t.Bool("cfg.chooser.specific")
	w.cfg = &traversal.Config{LinkSystem: w.lsys, LinkTargetNodePrototypeChooser: func(l datamodel.Link, _ linking.LinkContext) (datamodel.NodePrototype, error) {
		if specificChooser {
			if cl, ok := l.(cidlink.Link); ok && cl.Prefix().Codec == 0x71 {
				if b, ok := w.raw(l); ok && len(b) > 0 {
					switch {
					case b[0] >= 0xa0 && b[0] <= 0xbb:
						st.Inc("probe.chooser_map_prototype")
						return basicnode.Prototype.Map, nil
					case b[0] >= 0x80 && b[0] <= 0x9b:
						return basicnode.Prototype.List, nil
					}
				}
			}
		}
		return basicnode.Prototype.Any, nil
	}}

	// In some histories the link system the focused transforms run with has a NodeReifier that changes
	// what Load returns for map blocks (an ADL-like view with one more entry). A transform rewrites the
	// BLOCKS on its path: what it stores beside the target is the block's own content, not a reifier's view.
	reifying := !w.faulty && t.Pct(15, "cfg.reifier")
	cfgFocus := w.cfg
	if reifying {
		ls := w.lsys
		ls.NodeReifier = func(_ linking.LinkContext, n datamodel.Node, _ *linking.LinkSystem) (datamodel.Node, error) {
			if n.Kind() != datamodel.Kind_Map {
				return n, nil
			}
			st.Inc("reifier_invoked")
			nb := basicnode.Prototype.Map.NewBuilder()
			ma, err := nb.BeginMap(n.Length() + 1)
			if err != nil {
				return nil, err
			}
			for it := n.MapIterator(); !it.Done(); {
				k, v, err := it.Next()
				if err != nil {
					return nil, err
				}
				if err := ma.AssembleKey().AssignNode(k); err != nil {
					return nil, err
				}
				if err := ma.AssembleValue().AssignNode(v); err != nil {
					return nil, err
				}
			}
			if va, err := ma.AssembleEntry("«seen through the reifier»"); err == nil {
				va.AssignBool(true)
			}
			if err := ma.Finish(); err != nil {
				return nil, err
			}
			return nb.Build(), nil
		}
		cc := *w.cfg
		cc.LinkSystem = ls
		cfgFocus = &cc
		st.Inc("probe.link_system_with_node_reifier")
	}

	ncl := 1 + t.Choice(3, "nclients")
	type client struct {
		root    datamodel.Node
		exp     *model.V   // expanded model of the current root
		history []*model.V // expanded values of all earlier roots
		roots   []datamodel.Node
		steps   int
		typed   bool
		noJSON  bool                // no dag-json block in the graph (dag-json cannot carry a float zero's sign: C04's matter)
		sels    []selector.Selector // compiled selectors of earlier steps, re-used later (a compiled selector is immutable)
		selDesc []string
		selExpl []bool // the selector has clauses with explicit interests (fields, index, range)
	}
	cls := make([]*client, ncl)
	for c := range cls {
		if t.Pct(20, "cfg.typedroot") {
			r := &TRoot{M: TMap{Values: map[string]int64{}}, L: []string{}, S: TInner{X: int64(t.Choice(50, "tr.x")), Y: "y"}}
			for i, n := 0, 1+t.Choice(4, "tr.nkeys"); i < n; i++ {
				k := []string{"a", "b", "0", "7", "12", "key", "zz"}[t.Choice(7, "tr.key")]
				if _, dup := r.M.Values[k]; dup {
					continue
				}
				r.M.Keys = append(r.M.Keys, k)
				r.M.Values[k] = int64(t.Choice(100, "tr.val"))
			}
			for i, n := 0, t.Choice(4, "tr.nlist"); i < n; i++ {
				r.L = append(r.L, []string{"p", "q", "rr"}[t.Choice(3, "tr.item")])
			}
			r.ML = TMapL{Values: map[string][]string{}}
			for i, n := 0, 1+t.Choice(3, "tr.nml"); i < n; i++ {
				k := []string{"u", "v", "w"}[i]
				r.ML.Keys = append(r.ML.Keys, k)
				r.ML.Values[k] = []string{"first-of-" + k, "second-of-" + k}[:1+t.Choice(2, "tr.mllen")]
			}
			root := bindnode.Wrap(r, w.tts.TypeByName("TRoot"))
			e, err := w.expand(root, 0)
			if err != nil {
				panic("harness: typed root unreadable: " + err.Error())
			}
			cls[c] = &client{root: root, exp: e, steps: 3 + t.Choice(6, "nsteps"), typed: true}
			st.Inc("probe.typed_root")
			s.Log.Add(fmt.Sprintf("CLIENT %d typed root=%s", c, e))
			continue
		}
		nolinks := t.Pct(25, "cfg.nolinks")
		maxb := 6
		if nolinks {
			maxb = 1
		}
		g, err := gen.NewGraph(t, &w.lsys, maxb, 0)
		if err != nil {
			panic("harness: " + err.Error())
		}
		e, err := w.expand(g.RootNode, 0)
		if err != nil {
			panic("harness: cannot expand generated graph: " + err.Error())
		}
		cls[c] = &client{root: g.RootNode, exp: e, steps: 3 + t.Choice(6, "nsteps"), noJSON: true}
		for _, lb := range g.Links {
			if lb != "" && gen.LinkFromBin(lb).(cidlink.Link).Prefix().Codec == 0x0129 {
				cls[c].noJSON = false
			}
		}
		s.Log.Add(fmt.Sprintf("CLIENT %d root=%s", c, strip(e)))
	}
	var hist []string
	nontrivial := false
	okSteps := 0

	for c := range cls {
		c := c
		cl := cls[c]
		s.Go(fmt.Sprintf("client%d", c), func() {
			lastStep := false
			for step := 0; step < cl.steps && !lastStep; step++ {
				s.Yield("step")
				// ---- choose a transform against the current model ----
				var ps []pinfo
				allPaths(cl.exp, nil, 0, &ps)
				kind := []int{0, 0, 0, 1, 2, 3, 4, 5, 6, 7, 8, 9, 9, 9, 9, 10, 10}[t.Choice(17, "x.kind")]
				var segs []string
				act := action{}
				repl := func() *model.V {
					if cl.noJSON && t.Pct(8, "x.negzero") {
						// a replacement that differs from a float zero only in its sign (and from nothing else at all)
						st.Inc("probe.negative_zero_replacement")
						return model.FloatV(math.Copysign(0, -1))
					}
					if t.Pct(10, "x.bindrepl") {
						// a typed subtree refuses later transforms that do not fit its type, which the
						// untyped reference knows nothing about: it is this client's last transform
						lastStep = true
						return model.MapV().Put("X", model.IntV(int64(t.Choice(99, "x.bx")))).Put("Y", model.StringV("bound"))
					}
					b := 5
					v := gen.Value(t, gen.DagJson, nil, &b, 1) // inside both block codecs' domains
					// ... and staying there under later deletes: a map that keeps only its "/" entry is
					// dag-json's reserved form (C04's matter), so replacements carry no "/" key
					noSlashKeys(v)
					return v
				}
				pick := func(filter func(p pinfo) bool) (pinfo, bool) {
					var c []pinfo
					for _, p := range ps {
						if filter(p) {
							c = append(c, p)
						}
					}
					if len(c) == 0 {
						return pinfo{}, false
					}
					return c[t.Choice(len(c), "x.path")], true
				}
				parentKind := func(p pinfo) model.Kind {
					for _, q := range ps {
						if len(q.segs) == len(p.segs)-1 && strings.Join(q.segs, "/") == strings.Join(p.segs[:len(p.segs)-1], "/") && q.k != model.Link {
							return q.k
						}
					}
					// parent may be a loaded link's content
					cur := cl.exp
					for _, sg := range p.segs[:len(p.segs)-1] {
						for cur != nil && cur.K == model.Link && len(cur.Vals) == 1 {
							cur = cur.Vals[0]
						}
						if cur == nil {
							return model.Null
						}
						switch cur.K {
						case model.Map:
							cur = cur.Get(sg)
						case model.List:
							ix, _ := strconv.Atoi(sg)
							if ix < len(cur.Vals) {
								cur = cur.Vals[ix]
							} else {
								cur = nil
							}
						default:
							cur = nil
						}
					}
					for cur != nil && cur.K == model.Link && len(cur.Vals) == 1 {
						cur = cur.Vals[0]
					}
					if cur == nil {
						return model.Null
					}
					return cur.K
				}
				ok := true
				switch kind {
				case 0, 2: // replace / identity at an existing non-root position
					p, found := pick(func(p pinfo) bool { return len(p.segs) > 0 })
					ok = found
					segs = p.segs
					act.kind = kind
					act.repl = repl()
					if kind == 0 && cl.noJSON && t.Bool("x.flipzero") {
						// if some float zero exists, flip exactly its sign (the smallest possible change)
						if z, zf := pick(func(p pinfo) bool { return len(p.segs) > 0 && p.k == model.Float && p.zero }); zf {
							segs, act.repl = z.segs, model.FloatV(math.Copysign(0, -1))
							st.Inc("probe.float_zero_sign_flipped")
							if z.links > 0 {
								st.Inc("probe.float_zero_sign_flipped_below_link")
							}
						}
					}
				case 1: // delete an existing map entry
					p, found := pick(func(p pinfo) bool { return len(p.segs) > 0 && parentKind(p) == model.Map })
					ok = found
					segs, act.kind = p.segs, 1
				case 8: // delete a list element
					p, found := pick(func(p pinfo) bool { return len(p.segs) > 0 && parentKind(p) == model.List })
					ok = found
					segs, act.kind = p.segs, 1
				case 3: // insert a missing key into an existing map
					p, found := pick(func(p pinfo) bool {
						return p.k == model.Map || (p.k == model.Link && len(p.segs) > 0 && false)
					})
					ok = found
					segs = append(append([]string(nil), p.segs...), "new-key")
					act.repl = repl()
				case 4: // list append
					p, found := pick(func(p pinfo) bool { return p.k == model.List })
					ok = found
					segs = append(append([]string(nil), p.segs...), "-")
					act.repl = repl()
				case 5: // missing parents, created on request
					p, found := pick(func(p pinfo) bool { return p.k == model.Map })
					ok = found
					segs = append(append([]string(nil), p.segs...), "np1", "np2", "leaf")
					act.repl, act.create = repl(), true
				case 6: // missing parents, not requested: must be refused
					p, found := pick(func(p pinfo) bool { return p.k == model.Map })
					ok = found
					segs = append(append([]string(nil), p.segs...), "np1", "leaf")
					act.repl = repl()
				case 7:
					ok = !hasLinks(strip(cl.exp))
				case 9:
					// on link-free roots always; on roots with links (judged on content, links replaced by
					// their blocks) only without storage faults
					ok = !hasLinks(strip(cl.exp)) || !w.faulty
				case 10:
					ok = hasLinks(strip(cl.exp)) && !w.faulty
				}
				if cl.typed {
					// type-correct transforms only (a typed builder rightly refuses anything else)
					m, l := cl.exp.Get("M"), cl.exp.Get("L")
					ok = true
					act = action{}
					ml := cl.exp.Get("ML")
					switch t.Choice(10, "x.typed") {
					case 8:
						// a string inside one of the typed lists that are the values of a typed map
						k := ml.Keys[t.Choice(len(ml.Keys), "x.tmlkey")]
						kind, segs, act.repl = 0, []string{"ML", k, "0"}, model.StringV("replaced in a list in a map")
					case 9:
						k := ml.Keys[t.Choice(len(ml.Keys), "x.tmlkey")]
						kind, segs, act.repl = 4, []string{"ML", k, "-"}, model.StringV("appended to a list in a map")
					case 0:
						if len(m.Keys) == 0 {
							ok = false
							break
						}
						kind, segs, act.repl = 0, []string{"M", m.Keys[t.Choice(len(m.Keys), "x.tkey")]}, model.IntV(int64(1000+t.Choice(9, "x.tv")))
					case 1:
						if len(m.Keys) == 0 {
							ok = false
							break
						}
						kind, segs, act.kind = 1, []string{"M", m.Keys[t.Choice(len(m.Keys), "x.tkey")]}, 1
					case 2:
						nk := []string{"new", "3", "44", "k2"}[t.Choice(4, "x.tnew")]
						if m.Get(nk) != nil {
							ok = false
							break
						}
						kind, segs, act.repl = 3, []string{"M", nk}, model.IntV(int64(t.Choice(9, "x.tv")))
					case 3:
						if len(l.Vals) == 0 {
							ok = false
							break
						}
						kind, segs, act.repl = 0, []string{"L", strconv.Itoa(t.Choice(len(l.Vals), "x.tidx"))}, model.StringV("replaced")
					case 4:
						kind, segs, act.repl = 4, []string{"L", "-"}, model.StringV("appended")
					case 5:
						kind, segs, act.repl = 0, []string{"S", "X"}, model.IntV(int64(t.Choice(99, "x.tv")))
					case 6:
						kind, segs, act.repl = 0, []string{"S", "Y"}, model.StringV("why")
					default:
						if len(m.Keys) == 0 {
							ok = false
							break
						}
						kind, segs, act.kind = 2, []string{"M", m.Keys[t.Choice(len(m.Keys), "x.tkey")]}, 2
					}
					st.Inc("probe.typed_transform")
				}
				if !ok {
					continue
				}
				before := cl.exp
				beforeRaw := strip(before)
				commitsBefore := len(w.seam.Commits)
				w.faultTasks[c] = w.faulty
				var res datamodel.Node
				var err error
				var cbSeen []*model.V
				var pan string
				desc := ""
				var want, seenAt *model.V
				var wantErr error
				crossed := 0
				if kind == 9 {
					// selector-driven transform with a seeded selector. The positions a selector targets are
					// taken from the read-only matching walk of the same selector (same code, no transform):
					// the transform must replace exactly the top-most matched positions and nothing else.
					ssb := builder.NewSelectorSpecBuilder(basicnode.Prototype.Any)
					var sel selector.Selector
					selDesc := ""
					selExplicit := true // until a spec says otherwise
					if len(cl.sels) > 0 && t.Bool("x.reuse_selector") {
						k := t.Choice(len(cl.sels), "x.which_selector")
						sel, selDesc, selExplicit = cl.sels[k], cl.selDesc[k]+" (re-used)", cl.selExpl[k]
						st.Inc("probe.selector_reused")
					}
					gen.FieldHints = nil
					if cl.exp.K == model.Map {
						gen.FieldHints = cl.exp.Keys
					}
					withSubset := t.Pct(30, "x.subset_selector")
					for try := 0; try < 4 && sel == nil; try++ {
						spec := gen.Selector(t, ssb, 0, false, !withSubset)
						if cs, e := spec.Selector(); e == nil {
							sel = cs
							if sv, e2 := model.FromNode(spec.Node()); e2 == nil {
								selDesc = sv.String()
								selExplicit = hasExplicitInterests(sv)
							}
						}
					}
					if sel == nil {
						continue
					}
					if !withSubset && !strings.HasSuffix(selDesc, "(re-used)") && len(cl.sels) < 4 {
						cl.sels, cl.selDesc, cl.selExpl = append(cl.sels, sel), append(cl.selDesc, selDesc), append(cl.selExpl, selExplicit)
					}
					// across links the walks cross them (paths are transparent); with visit-once a link met
					// again is not crossed, by the read-only walk and by the transform alike
					linked9 := hasLinks(beforeRaw)
					base9 := beforeRaw
					cfg9 := w.cfg
					if linked9 {
						base9 = flatten(before)
						st.Inc("probe.walk_transform_selector_across_links")
						// Visit-once makes WHICH occurrence of a repeated link is crossed depend on the order of
						// the walk. The read-only walk follows a selector's explicit interests (fields, index,
						// range) in the selector's order, the transform follows the node's own order: only
						// selectors without such clauses make the two walks comparable under visit-once.
						if !selExplicit && t.Pct(60, "x.sel.once") {
							cc := *w.cfg
							cc.LinkVisitOnlyOnce = true
							cfg9 = &cc
							st.Inc("probe.walk_transform_selector_visit_once")
						}
					}
					scalarsOnly9 := cfg9.LinkVisitOnlyOnce
					var matched [][]string
					wpan := safe(func() {
						err = traversal.Progress{Cfg: cfg9}.WalkMatching(cl.root, sel, func(p traversal.Progress, n datamodel.Node) error {
							var sg []string
							for _, x := range p.Path.Segments() {
								sg = append(sg, x.String())
							}
							matched = append(matched, sg)
							return nil
						})
					})
					if wpan != "" || err != nil || len(matched) > 40 {
						continue // no reference positions: nothing to compare (selector semantics are C07/C10)
					}
					desc = fmt.Sprintf("walk-transform-selector(%d matches, selector %s)", len(matched), selDesc)
					marker := model.StringV("«T»")
					var called [][]string
					var calledWith []*model.V
					pan = safe(func() {
						res, err = traversal.Progress{Cfg: cfg9}.WalkTransforming(cl.root, sel, func(p traversal.Progress, n datamodel.Node) (datamodel.Node, error) {
							s.Yield("callback")
							var sg []string
							for _, x := range p.Path.Segments() {
								sg = append(sg, x.String())
							}
							av, _ := model.FromNode(n)
							if scalarsOnly9 && (n.Kind() == datamodel.Kind_Map || n.Kind() == datamodel.Kind_List) {
								// with visit-once the transform must go on below every match, as the read-only walk
								// does, or the two walks would remember different links
								return n, nil
							}
							called = append(called, sg)
							calledWith = append(calledWith, av)
							return basicnode.NewString("«T»"), nil
						})
					})
					// whatever the selector: the callback is handed the node at its position, and the result is the
					// input with exactly the positions the callback was called for replaced
					want = base9
					for ci, m := range called {
						if at := nodeAt(base9, m); at == nil || ((!linked9 || !hasLinks(calledWith[ci])) && !model.Equal(at, calledWith[ci])) {
							o.Fail("callback-saw-wrong-node", "walk-transform-selector", "%s: at %q the callback was handed %s, the node there is %s", desc, strings.Join(m, "/"), calledWith[ci], at)
						}
						want = replaceAt(want, m, marker)
					}
					if !withSubset && pan == "" && err == nil {
						// without subset clauses the read-only matching walk of the same selector names the targeted positions
						exp := base9
						for _, m := range matched {
							if at := nodeAt(base9, m); scalarsOnly9 && at != nil && (at.K == model.Map || at.K == model.List) && !redirectAt(before, m) {
								continue // (a redirect block's root is a link node to the walk: a scalar, replaced like one)
							}
							exp = replaceAt(exp, m, marker)
						}
						if !model.Equal(exp, want) {
							o.Fail("wrong-result", "walk-transform-selector", "%s: the transform's callback ran at %q, the matching walk of the same selector matches %q\n  from callbacks: %s\n  from matches:   %s (visit-once=%v, callback arguments %v)", desc, called, matched, show(want), show(exp), scalarsOnly9, calledWith)
						}
					} else if withSubset {
						st.Inc("probe.walk_transform_subset_selector")
					}
					st.Inc("probe.walk_transform_selector")
					if len(matched) > 0 {
						st.Inc("probe.walk_transform_selector_matched")
					}
				} else if kind == 10 {
					// Walking transform of a root WITH links, every link crossed: each int becomes a string naming the
					// path the callback was called at (so equal blocks at different positions get different results).
					// Whether the rewritten blocks are stored and re-linked is finding F5 and not judged here: the
					// result and the reference are compared with every loaded link replaced by its content.
					desc = "walk-transform-across-links"
					// in a third of the cases the loader declines one or two of the links (SkipMe): those
					// links stay what they are, and nothing behind them is transformed
					skip := map[string]bool{}
					if t.Pct(35, "x.wt.skip") {
						var all []string
						var collect func(v *model.V)
						collect = func(v *model.V) {
							if v.K == model.Link {
								all = append(all, v.S)
							}
							for _, x := range v.Vals {
								collect(x)
							}
						}
						collect(before)
						for i, n := 0, 1+t.Choice(2, "x.wt.nskip"); i < n && len(all) > 0; i++ {
							skip[all[t.Choice(len(all), "x.wt.skiplink")]] = true
						}
						desc = fmt.Sprintf("walk-transform-across-links(loader skips %d link(s))", len(skip))
						st.Inc("probe.walk_transform_loader_skips")
					}
					// in a third of the cases links are visited only once: a link met again stays what it is
					wcfg := w.cfg
					var seen map[string]bool
					if t.Pct(30, "x.wt.once") {
						cc := *w.cfg
						cc.LinkVisitOnlyOnce = true
						wcfg, seen = &cc, map[string]bool{}
						desc += "(LinkVisitOnlyOnce)"
						st.Inc("probe.walk_transform_visit_once")
					}
					want = pathMark(before, nil, skip, seen)
					w.skipTasks[c] = skip
					ssb := builder.NewSelectorSpecBuilder(basicnode.Prototype.Any)
					sel, _ := ssb.ExploreRecursive(selector.RecursionLimitNone(), ssb.ExploreUnion(ssb.Matcher(), ssb.ExploreAll(ssb.ExploreRecursiveEdge()))).Selector()
					pan = safe(func() {
						res, err = traversal.Progress{Cfg: wcfg}.WalkTransforming(cl.root, sel, func(p traversal.Progress, n datamodel.Node) (datamodel.Node, error) {
							s.Yield("callback")
							s.Log.Add(fmt.Sprintf("CB c%d %q %v", c, p.Path.String(), n.Kind()))
							if n.Kind() == datamodel.Kind_Int {
								return basicnode.NewString("int@" + p.Path.String()), nil
							}
							return n, nil
						})
					})
					st.Inc("probe.walk_transform_across_links")
				} else if kind == 7 {
					// walking transform on a link-free root: every int n -> n+1, every string upper-cased
					desc = "walk-transform"
					want = mapV(beforeRaw, func(v *model.V) *model.V {
						switch v.K {
						case model.Int:
							return model.IntV(v.I/2 + 7)
						case model.String:
							return model.StringV(strings.ToUpper(v.S) + "!")
						}
						return nil
					})
					ssb := builder.NewSelectorSpecBuilder(basicnode.Prototype.Any)
					sel, _ := ssb.ExploreRecursive(selector.RecursionLimitNone(), ssb.ExploreUnion(ssb.Matcher(), ssb.ExploreAll(ssb.ExploreRecursiveEdge()))).Selector()
					pan = safe(func() {
						res, err = traversal.Progress{Cfg: w.cfg}.WalkTransforming(cl.root, sel, func(_ traversal.Progress, n datamodel.Node) (datamodel.Node, error) {
							s.Yield("callback")
							switch n.Kind() {
							case datamodel.Kind_Int:
								x, _ := n.AsInt()
								return basicnode.NewInt(x/2 + 7), nil
							case datamodel.Kind_String:
								x, _ := n.AsString()
								return basicnode.NewString(strings.ToUpper(x) + "!"), nil
							}
							return n, nil
						})
					})
					st.Inc("probe.walk_transform")
				} else {
					var seen *model.V
					want, wantErr = refUpdate(before, segs, act, &crossed, &seen)
					seenAt = seen
					desc = fmt.Sprintf("%s@%s(links=%d,create=%v)", kindNames[kind], strings.Join(segs, "/"), crossed, act.create)
					// the same path in one of its legal forms: string segments, int-backed segments
					// where a segment is a number (what NewPath / list indices give), or re-parsed text
					path := datamodel.Path{}
					form := t.Choice(3, "x.pathform")
					parseable := true
					for _, sg := range segs {
						if sg == "" || strings.Contains(sg, "/") {
							parseable = false
						}
					}
					switch {
					case form == 2 && parseable && len(segs) > 0:
						path = datamodel.ParsePath(strings.Join(segs, "/"))
					default:
						for _, sg := range segs {
							if ix, err := strconv.Atoi(sg); form == 1 && err == nil && ix >= 0 && strconv.Itoa(ix) == sg {
								path = path.AppendSegmentInt(int64(ix))
								st.Inc("probe.int_backed_segment")
							} else {
								path = path.AppendSegmentString(sg)
							}
						}
					}
					pan = safe(func() {
						res, err = traversal.Progress{Cfg: cfgFocus}.FocusedTransform(cl.root, path, func(_ traversal.Progress, prev datamodel.Node) (datamodel.Node, error) {
							s.Yield("callback")
							var pv *model.V
							if prev != nil && !prev.IsAbsent() {
								pv, _ = model.FromNode(prev)
							}
							cbSeen = append(cbSeen, pv)
							switch act.kind {
							case 1:
								return nil, nil
							case 2:
								return prev, nil
							}
							if act.repl.K == model.Map && len(act.repl.Keys) == 2 && act.repl.Keys[0] == "X" && act.repl.Keys[1] == "Y" {
								// the replacement comes from another node implementation (a reflection-bound struct)
								st.Inc("probe.replacement_from_other_implementation")
								return bindnode.Wrap(&TInner{X: act.repl.Vals[0].I, Y: act.repl.Vals[1].S}, w.tts.TypeByName("TInner")), nil
							}
							nb := basicnode.Prototype.Any.NewBuilder()
							model.Assemble(nb, act.repl, gen.LinkFromBin, nil)
							return nb.Build(), nil
						}, act.create)
					})
					// the callback must have seen the node currently at the target
					if pan == "" && err == nil && wantErr == nil && len(cbSeen) > 0 {
						last := cbSeen[len(cbSeen)-1]
						if !model.Equal(last, strip(seen)) && !(last == nil && seen == nil) {
							o.Fail("callback-saw-wrong-node", kindNames[kind], "%s: the callback was handed %s, the node at the target is %s", desc, last, strip(seen))
						}
					}
				}
				w.faultTasks[c] = false
				w.skipTasks[c] = nil
				s.Log.Add(fmt.Sprintf("XFORM c%d %s -> err=%v panic=%q", c, desc, err != nil, pan))
				sig := kindNames[kind]
				if crossed > 0 {
					sig += " below link"
				}
				faultsFired := false
				for _, r := range w.seam.Readers {
					if r.R.OpenErr != nil || r.R.ErrAt >= 0 {
						faultsFired = true
					}
				}
				for _, wr := range w.seam.Writers {
					if wr.F.Kind != "" {
						faultsFired = true
					}
				}
				// the input is never changed, whatever happened
				if after, e2 := w.expand(cl.root, 0); e2 != nil || !eqExpanded(after, before) || !model.Equal(strip(after), beforeRaw) {
					o.Fail("input-changed", sig, "%s: the input root reads differently after the transform:\n now: %s\n was: %s", desc, strip(after), beforeRaw)
				}
				switch {
				case pan != "":
					o.Fail("panic", sig, "%s panicked: %s", desc, pan)
					continue
				case err != nil:
					if res != nil {
						o.Fail("node-with-error", sig, "%s returned both a node and error %v", desc, err)
					}
					if wantErr != nil {
						st.Inc("probe.expected_error")
						hist = append(hist, fmt.Sprintf("c%d:%s:refused", c, kindNames[kind]))
						continue
					}
					if w.faulty && faultsFired {
						st.Inc("probe.fault_made_transform_fail")
						hist = append(hist, fmt.Sprintf("c%d:%s:failed-under-fault", c, kindNames[kind]))
						continue
					}
					o.Fail("transform-failed", sig, "%s failed on a healthy store: %v", desc, err)
					continue
				case wantErr != nil:
					o.Fail("transform-should-fail", sig, "%s succeeded although the position cannot exist (result %s)", desc, describe(res))
					continue
				}
				if w.faulty && faultsFired {
					st.Inc("probe.fault_survived")
				}
				// ---- success: compare with the reference ----
				var got *model.V
				var gerr error
				pan = safe(func() { got, gerr = w.expand(res, 0) })
				if pan != "" || gerr != nil {
					o.Fail("result-unreadable", sig, "%s: the result cannot be read back: err=%v panic=%s", desc, gerr, pan)
					continue
				}
				if kind == 10 || (kind == 9 && hasLinks(beforeRaw)) {
					if !eqExpanded(flatten(got), want) {
						o.Fail("wrong-result", sig, "%s on %s\n  gave (links replaced by their content): %s\n  want: %s", desc, beforeRaw, show(flatten(got)), show(want))
						continue
					}
				} else if !eqExpanded(got, want) {
					o.Fail("wrong-result", sig, "%s on %s\n  gave: %s\n  want: %s", desc, beforeRaw, show(got), show(want))
					continue
				}
				gotRaw := strip(got)
				// reading the target back through the library's own path functions, from the new root and
				// (for positions that existed) from the input root
				if kind == 0 || kind == 2 || kind == 3 || kind == 5 {
					path := datamodel.Path{}
					for _, sg := range segs {
						path = path.AppendSegmentString(sg)
					}
					behind := func(v *model.V) *model.V { // Get and Focus follow a link at the end of the path
						for v != nil && v.K == model.Link && len(v.Vals) == 1 {
							v = v.Vals[0]
						}
						return strip(v)
					}
					wantNew := act.repl
					if act.kind == 2 {
						wantNew = behind(seenAt)
					}
					readBack := func(root datamodel.Node, what string, want *model.V) {
						if want == nil {
							return
						}
						var viaGet, viaFocus *model.V
						var gerr, ferr error
						rp := safe(func() {
							var n datamodel.Node
							if n, gerr = (traversal.Progress{Cfg: w.cfg}).Get(root, path); gerr == nil {
								viaGet, gerr = model.FromNode(n)
							}
							ferr = traversal.Progress{Cfg: w.cfg}.Focus(root, path, func(_ traversal.Progress, n datamodel.Node) error {
								var e error
								viaFocus, e = model.FromNode(n)
								return e
							})
						})
						if rp != "" || gerr != nil || ferr != nil || !sameContent(viaGet, want) || !sameContent(viaFocus, want) {
							o.Fail("read-back-differs", sig, "%s: reading %q from %s gives Get=%s (err %v) Focus=%s (err %v) panic=%q, want %s", desc, strings.Join(segs, "/"), what, viaGet, gerr, viaFocus, ferr, rp, want)
						}
					}
					if wantNew != nil && !(wantNew.K == model.Map && len(wantNew.Keys) == 2 && wantNew.Keys[0] == "X") {
						readBack(res, "the new root", wantNew)
						st.Inc("probe.read_back_through_get_and_focus")
					}
					if seenAt != nil {
						readBack(cl.root, "the input root", behind(seenAt))
					}
				}
				// off-path positions keep their links; blocks written are at most those on the path
				if kind != 7 && kind != 9 && kind != 10 {
					if msg := offPathUnchanged(beforeRaw, gotRaw, segs, w); msg != "" {
						o.Fail("off-path-changed", sig, "%s: %s", desc, msg)
					}
					written := len(w.seam.Commits) - commitsBefore
					if ncl == 1 && written > crossed {
						o.Fail("extra-blocks-written", sig, "%s crosses %d link(s) but %d blocks were written", desc, crossed, written)
					}
					if act.kind == 2 && !model.Equal(gotRaw, beforeRaw) {
						o.Fail("identity-changed-links", sig, "%s: an identity transform changed the tree or its links:\n now: %s\n was: %s", desc, gotRaw, beforeRaw)
					}
				}
				for _, lb := range w.seam.Commits[commitsBefore:] {
					l := gen.LinkFromBin(lb)
					if b, ok := w.raw(l); !ok || !linksys.HashesTo(l, b) {
						o.Fail("stored-block-hash", sig, "%s stored a block under %s whose bytes do not hash to it", desc, l)
					}
				}
				// persistence: every earlier root still expands to its earlier value
				for hi, old := range cl.roots {
					if now, e2 := w.expand(old, 0); e2 != nil || !eqExpanded(now, cl.history[hi]) {
						o.Fail("earlier-root-changed", sig, "after %s, root #%d of this client's history no longer expands to what it was", desc, hi)
					}
				}
				cl.roots = append(cl.roots, cl.root)
				cl.history = append(cl.history, before)
				cl.root, cl.exp = res, got
				okSteps++
				switch {
				case crossed >= 2:
					st.Inc("probe.below_two_links")
					fallthrough
				case crossed == 1:
					st.Inc("probe.below_link")
					nontrivial = true
				}
				switch kind {
				case 1:
					st.Inc("probe.delete_map")
				case 2:
					st.Inc("probe.identity")
				case 3:
					st.Inc("probe.insert_key")
				case 4:
					st.Inc("probe.append")
				case 5:
					st.Inc("probe.create_parents")
				}
				hist = append(hist, fmt.Sprintf("c%d:%s:d%d:l%d:ok", c, kindNames[kind], len(segs), crossed))
				// other clients' roots are unaffected
				for oc, other := range cls {
					if oc == c {
						continue
					}
					oroot, oexp := other.root, other.exp // read together: expanding yields, and the other client may move on meanwhile
					if now, e2 := w.expand(oroot, 0); e2 != nil || !eqExpanded(now, oexp) {
						o.Fail("other-client-root-changed", sig, "after client %d's %s, client %d's root no longer expands to its value", c, desc, oc)
					}
				}
			}
			if len(cl.roots) >= 3 {
				st.Inc("probe.history_ge_3")
				nontrivial = true
			}
		})
	}
	s.Run()
	for _, tk := range s.Finished {
		if tk.Panic != nil {
			o.Fail("panic", "harness-task", "client task panicked: %v\n%s", tk.Panic, tk.Stack)
		}
	}
	o.Events, o.Capped, o.LogHash, o.Log = s.Seq, s.Capped, s.Log.H, s.Log.Lines
	st.Inc("runs")
	st.Add("events", int64(s.Seq))
	st.Add("transforms_ok", int64(okSteps))
	// faults that actually reached the library (not merely planned)
	for _, r := range w.seam.Readers {
		switch {
		case r.R.OpenErr != nil && r.F.Kind == "skip":
			st.Inc("fired.loader_declines_block(SkipMe)")
		case r.R.OpenErr != nil:
			st.Inc("fired.read_open_error")
		case r.Ended == "err":
			st.Inc("fired.read_error_midstream")
		}
	}
	for _, wr := range w.seam.Writers {
		if wr.Failed {
			st.Inc("fired.write_error")
		}
	}
	if n := w.seam.CommitTries - len(w.seam.Commits); n > 0 {
		st.Add("fired.commit_error", int64(n))
	}
	if w.faulty {
		st.Inc("runs.faulty")
	}
	if ncl > 1 {
		st.Distinct("interleaving", s.IHash)
	}
	if nontrivial {
		st.Distinct("history", sim.HashString(strings.Join(hist, "|")))
		st.Sample(map[string]interface{}{"clients": ncl, "faulty": w.faulty, "history": hist})
	}
	return o
}

func describe(n datamodel.Node) string {
	if n == nil {
		return "<nil>"
	}
	v, err := model.FromNode(n)
	if err != nil {
		return "unreadable: " + err.Error()
	}
	return v.String()
}

func show(v *model.V) string {
	if v == nil {
		return "<nil>"
	}
	return showE(v, 0)
}

func showE(v *model.V, d int) string {
	if v.K == model.Link && len(v.Vals) == 1 {
		return "link→" + showE(v.Vals[0], d+1)
	}
	if d > 6 {
		return "…"
	}
	switch v.K {
	case model.Map:
		var sb strings.Builder
		sb.WriteString("{")
		for i, k := range v.Keys {
			if i > 0 {
				sb.WriteString(",")
			}
			sb.WriteString(strconv.Quote(k) + ":" + showE(v.Vals[i], d+1))
		}
		return sb.String() + "}"
	case model.List:
		var sb strings.Builder
		sb.WriteString("[")
		for i, x := range v.Vals {
			if i > 0 {
				sb.WriteString(",")
			}
			sb.WriteString(showE(x, d+1))
		}
		return sb.String() + "]"
	}
	return v.String()
}

// replaceAt replaces the node at a path of a link-free tree, unless an ancestor
// was already replaced (then the path no longer exists: the top-most match wins).
func replaceAt(v *model.V, segs []string, repl *model.V) *model.V {
	if len(segs) == 0 {
		return repl
	}
	c := *v
	switch v.K {
	case model.Map:
		c.Vals = append([]*model.V(nil), v.Vals...)
		for i, k := range v.Keys {
			if k == segs[0] {
				c.Vals[i] = replaceAt(v.Vals[i], segs[1:], repl)
				return &c
			}
		}
	case model.List:
		c.Vals = append([]*model.V(nil), v.Vals...)
		if ix, err := strconv.Atoi(segs[0]); err == nil && ix >= 0 && ix < len(v.Vals) {
			c.Vals[ix] = replaceAt(v.Vals[ix], segs[1:], repl)
			return &c
		}
	}
	return v
}

// nodeAt navigates a link-free tree.
func nodeAt(v *model.V, segs []string) *model.V {
	for _, sg := range segs {
		if v == nil {
			return nil
		}
		switch v.K {
		case model.Map:
			v = v.Get(sg)
		case model.List:
			ix, err := strconv.Atoi(sg)
			if err != nil || ix < 0 || ix >= len(v.Vals) {
				return nil
			}
			v = v.Vals[ix]
		default:
			return nil
		}
	}
	return v
}

// mapV rewrites scalars of a link-free tree.
func mapV(v *model.V, f func(*model.V) *model.V) *model.V {
	if r := f(v); r != nil {
		return r
	}
	c := *v
	if len(v.Vals) > 0 {
		c.Vals = make([]*model.V, len(v.Vals))
		for i, x := range v.Vals {
			c.Vals[i] = mapV(x, f)
		}
	}
	return &c
}

// offPathUnchanged walks the raw input and raw result along the target path:
// every sibling off the path must be equal including link binaries, in order.
func offPathUnchanged(a, b *model.V, segs []string, w *world) string {
	at := ""
	for depth := 0; ; depth++ {
		if a == nil || b == nil {
			return ""
		}
		// cross links transparently on both sides
		for a.K == model.Link && b.K == model.Link && len(segs) > depth {
			na, e1 := w.lsys.Load(linking.LinkContext{}, gen.LinkFromBin(a.S), basicnode.Prototype.Any)
			nb, e2 := w.lsys.Load(linking.LinkContext{}, gen.LinkFromBin(b.S), basicnode.Prototype.Any)
			if e1 != nil || e2 != nil {
				return ""
			}
			a, _ = model.FromNode(na)
			b, _ = model.FromNode(nb)
		}
		if depth >= len(segs) || a.K != b.K {
			return ""
		}
		seg := segs[depth]
		var nextA, nextB *model.V
		switch a.K {
		case model.Map:
			for i, k := range a.Keys {
				if k == seg {
					nextA = a.Vals[i]
					continue
				}
				x := b.Get(k)
				if x == nil || !model.Equal(x, a.Vals[i]) {
					return fmt.Sprintf("entry %q beside the path at %q changed: was %s, now %s", k, at, a.Vals[i], x)
				}
			}
			nextB = b.Get(seg)
			// order of surviving entries
			var ka, kb []string
			for _, k := range a.Keys {
				if k != seg {
					ka = append(ka, k)
				}
			}
			for _, k := range b.Keys {
				if k != seg {
					kb = append(kb, k)
				}
			}
			if strings.Join(ka, "\x00") != strings.Join(kb, "\x00") {
				return fmt.Sprintf("entries beside the path at %q were reordered or dropped: was %q, now %q", at, ka, kb)
			}
		case model.List:
			ix, err := strconv.Atoi(seg)
			if err != nil {
				return ""
			}
			if depth == len(segs)-1 && len(b.Vals) != len(a.Vals) {
				return "" // an element was removed or appended at the target: positions shift by design
			}
			for i, x := range a.Vals {
				if i == ix {
					nextA = x
					if i < len(b.Vals) {
						nextB = b.Vals[i]
					}
					continue
				}
				if i >= len(b.Vals) || !model.Equal(b.Vals[i], x) {
					return fmt.Sprintf("element %d beside the path at %q changed", i, at)
				}
			}
		default:
			return ""
		}
		a, b = nextA, nextB
		at += "/" + seg
	}
}

func (S) Unit(u *scen.Unit) { u.Exec(nil) }

// Demos: fixed demonstrations of the recorded C16 findings.
func (S) Demos() map[string]func() *sim.Violation {
	return map[string]func() *sim.Violation{
		"walk-transform-inlines-linked-block": func() *sim.Violation {
			ms := &memstore.Store{}
			lsys := cidlink.DefaultLinkSystem()
			lsys.SetReadStorage(ms)
			lsys.SetWriteStorage(ms)
			child := model.MapV().Put("x", model.IntV(1))
			nb := basicnode.Prototype.Any.NewBuilder()
			model.Assemble(nb, child, gen.LinkFromBin, nil)
			lp := cidlink.LinkPrototype{Prefix: gen.LinkFromBin(gen.SomeCids(sim.NewTape(1), 1)[0]).(cidlink.Link).Prefix()}
			lp.Codec, lp.MhType, lp.MhLength = 0x71, 0x12, -1
			l, err := lsys.Store(linking.LinkContext{}, lp, nb.Build())
			if err != nil {
				return nil
			}
			root := model.MapV().Put("a", model.LinkV(l.Binary()))
			rb := basicnode.Prototype.Any.NewBuilder()
			model.Assemble(rb, root, gen.LinkFromBin, nil)
			cfg := &traversal.Config{LinkSystem: lsys, LinkTargetNodePrototypeChooser: func(datamodel.Link, linking.LinkContext) (datamodel.NodePrototype, error) {
				return basicnode.Prototype.Any, nil
			}}
			ssb := builder.NewSelectorSpecBuilder(basicnode.Prototype.Any)
			sel, _ := ssb.ExploreRecursive(selector.RecursionLimitNone(), ssb.ExploreUnion(ssb.Matcher(), ssb.ExploreAll(ssb.ExploreRecursiveEdge()))).Selector()
			res, err := traversal.Progress{Cfg: cfg}.WalkTransforming(rb.Build(), sel, func(_ traversal.Progress, n datamodel.Node) (datamodel.Node, error) {
				if n.Kind() == datamodel.Kind_Int {
					return basicnode.NewInt(2), nil
				}
				return n, nil
			})
			if err != nil || res == nil {
				return nil
			}
			got, err := model.FromNode(res)
			if err != nil {
				return nil
			}
			if a := got.Get("a"); a != nil && a.K != model.Link {
				return &sim.Violation{Rule: "walk-transform-across-link", Sig: "WalkTransforming inlines the block behind a link",
					Msg: fmt.Sprintf("root {a: link -> {x:1}} transformed (ints -> 2) gives %s: the changed block is inlined, not stored and re-linked", got)}
			}
			return nil
		},
	}
}
