package linksys

import (
	"bytes"
	"context"
	"errors"
	"fmt"
	"io"
	"sort"

	cid "github.com/ipfs/go-cid"
	"github.com/ipld/go-ipld-prime/datamodel"
	"github.com/ipld/go-ipld-prime/fluent/qp"
	"github.com/ipld/go-ipld-prime/linking"
	cidlink "github.com/ipld/go-ipld-prime/linking/cid"
	"github.com/ipld/go-ipld-prime/node/basicnode"
	"github.com/ipld/go-ipld-prime/traversal"
	"github.com/ipld/go-ipld-prime/traversal/selector"
	"github.com/ipld/go-ipld-prime/traversal/selector/builder"

	"verif/gen"
	"verif/model"
	"verif/scen"
	"verif/sim"
	"verif/simstore"
)

// S06 decides C06.
type S06 struct{}

func (S06) ID() string    { return "C06" }
func (S06) Level() string { return "fault_enumeration" }

func (S06) Info() scen.Info {
	return scen.Info{
		Rule: "unit = one seeded stored block (codec x multihash x digest length x value) plus a second block; per unit: a fault-free run records block length, the library's read offsets, the store's write count and the encoder's accessor count; then one run per fault: every truncation length and a bit flip at every offset (all 8 bits for blocks <=64 bytes) for blocks <=512 bytes, read-trace boundaries +-1 and 64 seeded interior offsets for larger ones; 6 extensions; substitution; a read error at every recorded read boundary and seeded interior offsets (sticky/one-shot x with/without data); open error; seeded two-fault sequences; each under 3 chunkings; a write error at every write index, commit error, and an encoder-input failure at every accessor position. Every run performs Load, LoadRaw, LoadPlusRaw and Fill. " +
			"distinct_nontrivial counts distinct hash(codec, multihash, fault kind, position, chunking, per-function outcome class) over runs whose fault actually fired. Later additions: an ADL-style NodeReifier loading a substituted block through the link system it is handed; the block reached in three places of a parent block by WalkAdv / WalkMatching / WalkTransforming / Focus / Get / FocusedTransform, with the first, second or third of those loads answered by a corrupted or substituted copy (hash-mismatch error required, no callback after that load).",
		DistinctSet: "fault_case",
		Assumptions: []string{
			"the oracle hashes the bytes the simulated reader actually delivered with Go stdlib / x/crypto hashes, never with the library",
			"readers honour the io.Reader contract: no (0,nil) forever, no n<len with nil error on writes",
			"after a read error surfaced mid-stream the returned error need not be the injected one (the decoder may wrap it); an opener error must be returned as is",
			"a load whose delivered bytes differ from the stored ones but still hash to a short truncated digest is unconstrained",
			"with TrustedStorage=true (8% of the units) only the open / read error clauses and panics are judged, as the property says",
			"go-cid / go-multihash are used as instruments to parse the digest out of a link",
		},
		Components: map[string]string{
			"linking.LinkSystem, linking/cid, multicodec registry, codec/{dagcbor,dagjson,cbor,json,raw}, refmt, go-cid, go-multihash hashers, storage/memstore, cidlink.Memory": "real",
			"block streams":         "stub: simstore readers/writers deliver the planned bytes, chunking and errors and log what they returned",
			"failing encoder input": "stub: read-only proxy node whose k-th accessor returns an error",
			"goroutine scheduling":  "stub: seeded one-at-a-time scheduler (a second client loads another block while the fault is in flight)",
		},
		QuickUnits: 240, ThoroughUnits: 12000, QuickSecs: 240, ThoroughSecs: 1200,
		ProbeKeys: []string{"probe.decode_failed_then_drained", "probe.error_at_eof_position", "probe.hash_collision_short_digest", "probe.late_error_after_complete_block", "probe.second_client_interleaved", "probe.hashmismatch_precedence_over_decode_error", "probe.reifier_loads_through_given_linksystem", "probe.kind_specific_prototype", "probe.consumer_used_writeto", "probe.walk_load_met_bad_copy", "probe.walk_later_load_met_bad_copy", "probe.trusted_storage_unit"},
		EventsKey: "events",
	}
}

type baseInfo struct {
	LenB    int
	Offsets []int
	NWrites int
	NAccess int
	Codec   string
}

var fnNames = []string{"Load", "LoadRaw", "LoadPlusRaw", "Fill"}
var kindNames = []string{"none", "trunc", "flip", "extend", "subst", "readerr", "openerr", "multi", "writeerr", "commiterr", "encfail", "reread-differs", "walk", "cancel-midway"}

// bigGarbage: 1.5 MiB that no codec accepts after an item.
var bigGarbage = func() []byte {
	g := make([]byte, 3<<19)
	for j := range g {
		g[j] = byte(j*131 + 7)
	}
	return g
}()

func extBytes(i int, valid []byte) []byte {
	switch i % 6 {
	case 0:
		return []byte{0x00}
	case 1:
		return []byte{' '}
	case 2:
		return []byte{'\n'}
	case 3:
		return []byte{0xff}
	case 4:
		return append([]byte(nil), valid...) // a second valid item
	default:
		g := make([]byte, 4096)
		for j := range g {
			g[j] = byte(j*131 + 7)
		}
		return g
	}
}

func (S06) RunTape(t *sim.Tape, st *sim.Stats, keepLog bool) *sim.Outcome {
	o := &sim.Outcome{}
	s := sim.NewSim(t, sim.NewChanBaton())
	s.Log.Keep = keepLog
	s.MaxSteps = 400000
	useMust = t.Pct(15, "cfg.must") // Load and Fill go through MustLoad / MustFill in this unit
	defer func() { useMust = false }()
	be := newBackend(t)
	lsys := cidlink.DefaultLinkSystem()
	be.wire(&lsys)
	seam := &simstore.Seam{S: s, T: t}
	seam.Wrap(&lsys)

	codec := gen.Codecs[t.Choice(len(gen.Codecs), "cfg.codec")]
	lp := gen.LinkProto(t, []gen.Codec{codec}, false)
	links := gen.SomeCids(t, 3)
	budget := 4 + t.Choice(30, "cfg.size")
	b1, b2, b3 := budget, 12, budget
	V := gen.Value(t, codec, links, &b1, 0)
	if !codec.RawOnly && t.Pct(25, "cfg.scalarblock") {
		// a block that is one scalar (a byte string, a string, a number ...): depth 5 leaves only scalar kinds
		one := 1
		V = gen.Value(t, codec, links, &one, 5)
	}
	V2 := gen.Value(t, codec, links, &b2, 0)
	V3 := gen.Value(t, codec, links, &b3, 0)
	if model.Equal(V2.Canon(codec.SortMode), V.Canon(codec.SortMode)) {
		V2 = model.ListV(V2, model.IntV(7))
		if codec.RawOnly {
			V2 = model.BytesV(append([]byte("other"), V.Bs...))
		}
	}
	s.MaxQ = []int{0, 3, 12}[t.Choice(3, "cfg.maxq")]
	client2 := t.Bool("cfg.client2")

	// ---- set-up (fault-free, outside the scheduler) ----
	permute := codec.SortMode != model.SortNone // order-preserving codecs keep the order given
	L, err := lsys.Store(linking.LinkContext{}, lp.LinkPrototype, build(t, V, permute))
	if err != nil {
		o.Fail("setup-store", codec.Name, "fault-free Store of a generated value failed: %v (value %s)", err, V)
		return o
	}
	B, ok := be.bytesOf(L)
	if !ok {
		o.Fail("setup-store", codec.Name, "stored block not found in backend under its link")
		return o
	}
	B = append([]byte(nil), B...)
	L2, err := lsys.Store(linking.LinkContext{}, lp.LinkPrototype, build(t, V2, permute))
	if err != nil {
		o.Fail("setup-store", codec.Name, "fault-free Store of second value failed: %v", err)
		return o
	}
	B2x, _ := be.bytesOf(L2)
	B2 := append([]byte(nil), B2x...)
	if L2.Binary() == L.Binary() {
		// a 1-3 byte truncated digest made the two blocks collide on one link: the store holds
		// only the first, so there is no second block for a bystander or a substitution
		st.Inc("probe.two_blocks_one_short_link")
		client2 = false
		B2 = append(append([]byte(nil), B...), 0x01)
	}
	if !hashesTo(L, B) {
		o.Fail("store-link-hash", codec.Name, "Store returned link %s but the bytes in storage do not hash to it (independent hash)", L)
	}
	wantV := V.Canon(codec.SortMode)
	wantV2 := V2.Canon(codec.SortMode)

	// ---- fault plan (enumeration dimensions) ----
	kind := t.Choice(len(kindNames), "f.kind")
	pos := t.Choice(1<<16, "f.pos")
	bit := t.Choice(8, "f.bit")
	ext := t.Choice(6, "f.ext")
	big := t.Choice(2, "f.bigext") == 1 && kind == 3
	sticky := t.Bool("f.sticky")
	withData := t.Bool("f.withdata")
	pos2 := t.Choice(1<<16, "f.pos2")
	chunkMode := t.Choice(4, "f.chunk")
	eofWith := t.Bool("f.eofwith")
	stall := t.Choice(3, "f.stall")
	caps := t.Choice(4, "f.caps")
	mkFault := func() *simstore.ReadFault {
		f := &simstore.ReadFault{Err2At: -1, EOFWith: eofWith, Stall: stall, ErrSticky: sticky, ErrData: withData, Pos: pos, Bit: bit, Caps: caps}
		switch chunkMode {
		case 1:
			f.Chunk = 1
			if len(B) > 2000 {
				f.Chunk = 61
			}
		case 2:
			f.Chunk, f.Random = 7, true
		case 3:
			f.Chunk = 3
			if len(B) > 6000 {
				f.Chunk = 333
			}
		}
		switch kind {
		case 1:
			f.Kind = "trunc"
		case 2:
			f.Kind = "flip"
		case 3:
			f.Kind = "extend"
			f.Ext = extBytes(ext, B2)
			if stall == 2 {
				// exactly where the stored block ends and the appended bytes begin, one Read answers
				// (0, nil): a decoder probing for trailing data must not take that for the end
				f.EmptyAt = len(B)
				st.Inc("probe.empty_read_at_block_end_before_extension")
			}
			if big {
				// far more trailing data than any buffer or bound an implementation might use while it
				// drains the stream after a decode error; delivered in large pieces
				f.Ext = bigGarbage
				f.Chunk, f.Random = 1<<16, false
			}
		case 4:
			f.Kind = "subst"
			f.Subst = B2
		case 5:
			f.Kind = "readerr"
		case 6:
			f.Kind = "openerr"
		case 11:
			// the first pass over the block delivers it intact; a consumer that seeks back to the start
			// is given another block's bytes from then on
			f.RewindSubst = B2
		case 12:
			// one of the walk's loads of the block meets a corrupted or substituted copy
			switch bit % 4 {
			case 0:
				f.Kind = "flip"
			case 1:
				f.Kind = "trunc"
			case 2:
				f.Kind = "extend"
				f.Ext = extBytes(ext, B2)
			default:
				f.Kind = "subst"
				f.Subst = B2
			}
		case 7:
			// two-fault sequence: a corruption plus a read error further on
			f.Kind = []string{"flip", "trunc", "extend"}[ext%3]
			f.Ext = extBytes(ext, B2)
			f.Err2At = pos2
		}
		return f
	}
	benign := func() *simstore.ReadFault {
		return &simstore.ReadFault{Err2At: -1, Chunk: []int{0, 1, 5, 4096}[t.Choice(4, "benign.chunk")], EOFWith: t.Bool("benign.eofwith")}
	}
	s.Log.Add(fmt.Sprintf("CFG backend=%s codec=%s lp=%+v len(B)=%d fault=%s pos=%d bit=%d ext=%d sticky=%v withdata=%v pos2=%d chunk=%d eofwith=%v client2=%v",
		be.name, codec.Name, lp.Prefix, len(B), kindNames[kind], pos, bit, ext, sticky, withData, pos2, chunkMode, eofWith, client2))
	s.Log.Add("VALUE " + V.String())

	// An ADL-style NodeReifier: it is handed a *LinkSystem by the load that calls it and, like a
	// multi-block ADL, loads a further block through THAT link system. Storage answers with another
	// block's bytes; nobody declared storage trusted, so every one of those loads must fail.
	// One unit in twelve declares storage trusted once the blocks are stored. The property then asks
	// for no hash check -- but open and read errors must still surface as errors, never as partial
	// data: only those clauses are judged in such a unit (and panics).
	trusted := t.Pct(8, "cfg.trusted")
	if trusted {
		lsys.TrustedStorage = true
		st.Inc("probe.trusted_storage_unit")
	}

	inReifier := false
	if t.Bool("cfg.reifier") && L2.Binary() != L.Binary() && kind != 12 && !trusted {
		lsys.NodeReifier = func(lc linking.LinkContext, n datamodel.Node, ls *linking.LinkSystem) (datamodel.Node, error) {
			if inReifier || s.Cur() != 0 {
				return n, nil
			}
			inReifier = true
			defer func() { inReifier = false }()
			st.Inc("probe.reifier_loads_through_given_linksystem")
			for fn := 0; fn < 4; fn++ {
				if res := doLoad(ls, fn, L2); res.err == nil && res.pan == "" {
					o.Fail("unverified-data-returned", codec.Name+" "+fnNames[fn]+" via-reifier-linksystem", "%s through the *LinkSystem a NodeReifier was handed returned data for link %s although storage delivered another block's bytes (TrustedStorage was never set by the application)", fnNames[fn], L2)
				}
			}
			return n, nil
		}
	}

	// the faulted block is loaded into the Any prototype or into the generic prototype of its own kind
	var loadProto datamodel.NodePrototype = basicnode.Prototype.Any
	if t.Bool("cfg.specificproto") {
		loadProto = protoForKind(V.K)
		st.Inc("probe.kind_specific_prototype")
	}

	var outcomes [4]string
	offsets := map[int]bool{}
	info := &baseInfo{LenB: len(B), Codec: codec.Name}
	fired := false

	if kind == 12 && trusted {
		// nothing to judge: the walk-level rule is about hash mismatches
	} else if kind == 12 {
		// ---- the block is reached by a traversal, several times: every one of those loads is a load ----
		fired = walkLoads(o, st, t, s, seam, &lsys, codec, L, L2, B, B2, mkFault, benign)
	} else if kind <= 7 || kind == 11 {
		seam.NextRead = func(l datamodel.Link) *simstore.ReadFault {
			if s.Cur() == 0 && inReifier && l.Binary() == L2.Binary() {
				return &simstore.ReadFault{Kind: "subst", Subst: B, Err2At: -1, Tag: 2}
			}
			if s.Cur() == 0 && l.Binary() == L.Binary() {
				f := mkFault()
				f.Tag = 1
				return f
			}
			return benign()
		}
		s.Go("loader", func() {
			type keptNode struct {
				n  datamodel.Node
				fn string
			}
			var kept []keptNode
			var keptRaw [][]byte
			defer func() {
				// what the loads handed out stays what it was, whatever was loaded afterwards:
				// load the OTHER block by every function first, then look again
				if len(kept)+len(keptRaw) > 0 && L2.Binary() != L.Binary() {
					for fn := 0; fn < 4; fn++ {
						doLoad(&lsys, fn, L2)
					}
				}
				for _, k := range kept {
					got, err := model.FromNode(k.n)
					if err != nil || !model.Equal(got, wantV) {
						o.Fail("returned-node-changed", codec.Name+" "+k.fn, "the node %s returned (verified against the link) reads differently after later loads: now %s, was %s (err %v)", k.fn, got, wantV, err)
					}
				}
				for _, r := range keptRaw {
					if !bytes.Equal(r, B) {
						o.Fail("returned-raw-changed", codec.Name, "raw bytes a load returned (verified against the link) were changed by later loads")
					}
				}
			}()
			for fn := 0; fn < 4; fn++ {
				s.Yield("op")
				before := len(seam.Readers)
				res := doLoadInto(&lsys, fn, L, loadProto)
				var rd *simstore.Reader
				for _, r := range seam.Readers[before:] {
					if r.F.Tag == 1 {
						rd = r
						break
					}
				}
				outcomes[fn] = judgeLoad(o, st, codec, fnNames[fn], kindNames[kind], L, B, wantV, rd, res, trusted)
				if outcomes[fn] == "ok" {
					if res.node != nil {
						kept = append(kept, keptNode{res.node, fnNames[fn]})
					}
					if res.raw != nil {
						keptRaw = append(keptRaw, res.raw)
					}
				}
				if rd != nil {
					if len(rd.Passes) > 0 {
						st.Inc("consumer_rewound_the_stream")
					}
					if rd.WroteTo {
						st.Inc("probe.consumer_used_writeto")
					}
					for _, off := range rd.ReadSizes {
						offsets[off] = true
					}
					if kind != 0 && (!bytes.Equal(rd.R.D, B) || rd.R.ErrAt >= 0 || rd.R.OpenErr != nil) {
						fired = true
					}
				}
				s.Log.Add(fmt.Sprintf("LOAD %s -> %s", fnNames[fn], outcomes[fn]))
			}
		})
	} else {
		// ---- store-side faults ----
		n3 := build(t, V3, true)
		ctr := &faultCtr{at: -1}
		if kind == 10 {
			ctr.at = pos
		}
		keysBefore := be.nkeys()
		commitsBefore := len(seam.Commits)
		syncCap := caps&1 != 0 // half the store-side runs hand the library a writer that also offers Sync()
		// kind 13: the context the store was called with is cancelled once write #pos went through
		sctx, cancel := context.WithCancel(context.Background())
		defer cancel()
		seam.NextWrite = func() *simstore.WriteFault {
			switch kind {
			case 13:
				return &simstore.WriteFault{Sync: syncCap, After: func(i int) {
					if i == pos {
						cancel()
					}
				}}
			case 8:
				return &simstore.WriteFault{Kind: "writeerr", AtWrite: pos, Partial: pos2, OneShot: sticky, Sync: syncCap}
			case 9:
				return &simstore.WriteFault{Kind: "commiterr", Sync: syncCap}
			}
			return &simstore.WriteFault{Sync: syncCap}
		}
		seam.NextRead = func(l datamodel.Link) *simstore.ReadFault { return benign() }
		s.Go("storer", func() {
			s.Yield("op")
			var lnk datamodel.Link
			var err error
			lc := linking.LinkContext{}
			if kind == 13 {
				lc.Ctx = sctx
			}
			pan := catch(func() { lnk, err = lsys.Store(lc, lp.LinkPrototype, wrapFault(n3, ctr)) })
			var wr *simstore.Writer
			if len(seam.Writers) > 0 {
				wr = seam.Writers[len(seam.Writers)-1]
			}
			sig := codec.Name + " Store " + kindNames[kind]
			switch {
			case pan != "":
				o.Fail("panic", sig, "Store panicked under %s: %s", kindNames[kind], pan)
			case kind == 8 && wr != nil && wr.Failed:
				fired = true
				if wr.AfterErr > 0 {
					st.Inc("probe.encoder_ignored_write_error")
				}
				if err == nil {
					o.Fail("store-swallowed-write-error", sig, "writer failed at its Write #%d yet Store returned a nil error and link %v (committer invoked: %v)", wr.F.AtWrite, lnk, len(seam.Commits) > commitsBefore)
				}
				if len(seam.Commits) > commitsBefore {
					o.Fail("store-committed-after-failure", sig, "writer failed at its Write #%d yet the block was committed", wr.F.AtWrite)
				}
				if lnk != nil {
					o.Fail("store-link-with-error", sig, "Store returned a link although the writer failed")
				}
			case kind == 9 && seam.CommitTries > 0:
				fired = true
				if err == nil {
					o.Fail("store-commit-error-lost", sig, "committer returned an error but Store returned a nil error")
				} else if !errors.Is(err, simstore.ErrInjectedCommit) {
					st.Inc("probe.commit_error_rewrapped")
				}
			case kind == 13 && wr != nil && wr.Calls > pos:
				// cancelled with writes still to come: either the store fails and commits nothing, or it
				// completes -- then what it committed is the whole encoding, under the whole encoding's link
				fired = true
				if err != nil {
					if len(seam.Commits) > commitsBefore || be.nkeys() != keysBefore {
						o.Fail("store-committed-after-failure", sig, "Store cancelled after its write #%d failed with %v, yet a block was committed", pos, err)
					}
				} else if b, ok := be.bytesOf(lnk); !ok {
					o.Fail("store-link-hash", sig, "Store (context cancelled after write #%d) returned %v with a nil error but storage has no such block", pos, lnk)
				} else if !hashesTo(lnk, b) {
					o.Fail("store-link-hash", sig, "Store (context cancelled after write #%d) returned %v, but the bytes committed under it do not hash to it", pos, lnk)
				} else if got, derr := decodeBlock(&lsys, lnk, b); derr != nil || !model.Equal(got.Canon(model.SortLexical), V3.Canon(model.SortLexical)) {
					// Two different blocks under one link: with a digest cut to one or two bytes the
					// node's complete encoding may collide with a block stored earlier, which storage
					// keeps. If the returned link IS the link of the complete encoding, that is what
					// happened (the property leaves colliding digests open); a link of anything else
					// (a prefix of the encoding, say) is the violation.
					if enc, eerr := lsys.EncoderChooser(lp.LinkPrototype); eerr == nil {
						var full bytes.Buffer
						if enc(n3, &full) == nil && hashesTo(lnk, full.Bytes()) {
							st.Inc("probe.hash_collision_short_digest")
							break
						}
					}
					o.Fail("store-committed-partial-block", sig, "Store (context cancelled after write #%d of %d) returned a nil error and link %v, but the block committed under it (%d bytes) is not the node's encoding: it decodes to %s (err %v), the node is %s", pos, wr.Calls, lnk, len(b), got, derr, V3.Canon(codec.SortMode))
				}
			case kind == 10 && ctr.fired:
				fired = true
				if err == nil {
					o.Fail("store-encode-failure-lost", sig, "the node's accessor #%d failed during encoding yet Store returned nil error", ctr.at)
				}
				if len(seam.Commits) > commitsBefore || be.nkeys() != keysBefore {
					o.Fail("store-committed-after-failure", sig, "encoding failed at accessor #%d yet a block was committed", ctr.at)
				}
			default:
				// fault did not fire (position beyond the run): a normal store
				if err != nil {
					o.Fail("store-failed", sig, "fault-free Store failed: %v", err)
				} else if b, ok := be.bytesOf(lnk); !ok || !hashesTo(lnk, b) {
					o.Fail("store-link-hash", sig, "Store returned %v but storage has no bytes hashing to it", lnk)
				}
			}
			if err == nil && lnk != nil && kind != 9 {
				if b, ok := be.bytesOf(lnk); ok && !hashesTo(lnk, b) {
					o.Fail("store-link-hash", sig, "Store returned nil error and %v, but the bytes committed under it do not hash to it", lnk)
				}
			}
			if wr != nil {
				info.NWrites = wr.Calls
			}
			info.NAccess = ctr.n
			s.Log.Add(fmt.Sprintf("STORE %s err=%v", kindNames[kind], err != nil))
			// A failed, cancelled or refused store must leave nothing behind inside the library (an
			// encoder, buffer or writer kept for reuse that remembers the failure): the same node, asked
			// for again through the same link system with healthy storage, gets its link and is stored.
			seam.NextWrite = func() *simstore.WriteFault { return &simstore.WriteFault{Sync: syncCap} }
			var l2, l3 datamodel.Link
			var e2, e3 error
			if p2 := catch(func() { l2, e2 = lsys.ComputeLink(lp.LinkPrototype, n3) }); p2 != "" || e2 != nil {
				o.Fail("failed-store-left-a-trace", sig, "after a Store under %s (its error: %v), a fault-free ComputeLink of the same node failed: err=%v panic=%s", kindNames[kind], err, e2, p2)
			}
			if p3 := catch(func() { l3, e3 = lsys.Store(linking.LinkContext{}, lp.LinkPrototype, n3) }); p3 != "" || e3 != nil {
				o.Fail("failed-store-left-a-trace", sig, "after a Store under %s (its error: %v), a fault-free Store of the same node failed: err=%v panic=%s", kindNames[kind], err, e3, p3)
			} else if b, ok := be.bytesOf(l3); !ok || !hashesTo(l3, b) {
				o.Fail("store-link-hash", sig, "after a Store under %s, a fault-free Store of the same node returned %v but storage has no bytes hashing to it", kindNames[kind], l3)
			} else if l2 != nil && l2.Binary() != l3.Binary() {
				o.Fail("failed-store-left-a-trace", sig, "after a Store under %s, ComputeLink (%v) and Store (%v) of the same node disagree", kindNames[kind], l2, l3)
			} else {
				st.Inc("probe.store_repeated_after_faulted_store")
			}
		})
	}
	if client2 {
		s.Go("bystander", func() {
			for fn := 0; fn < 4; fn++ {
				s.Yield("op")
				res := doLoad(&lsys, fn, L2)
				if res.pan != "" || res.err != nil {
					o.Fail("bystander-failed", codec.Name+" "+fnNames[fn], "fault-free %s of another block failed while a fault was in flight elsewhere: err=%v panic=%s", fnNames[fn], res.err, res.pan)
					continue
				}
				if res.node != nil {
					got, err := model.FromNode(res.node)
					if err != nil || !model.Equal(got, wantV2) {
						o.Fail("bystander-wrong", codec.Name+" "+fnNames[fn], "fault-free %s of another block returned %s, want %s (err %v)", fnNames[fn], got, wantV2, err)
					}
				}
				if res.raw != nil && !bytes.Equal(res.raw, B2) {
					o.Fail("bystander-wrong", codec.Name+" "+fnNames[fn], "fault-free %s of another block returned wrong raw bytes", fnNames[fn])
				}
			}
		})
	}
	s.Run()
	for _, tk := range s.Finished {
		if tk.Panic != nil {
			o.Fail("panic", codec.Name+" harness-task", "task %s panicked: %v\n%s", tk.Name, tk.Panic, tk.Stack)
		}
	}
	if kind == 0 {
		// base run of a store as well, to size the store-side enumeration
		ctr := &faultCtr{at: -1}
		wb := len(seam.Writers)
		if _, err := lsys.Store(linking.LinkContext{}, lp.LinkPrototype, wrapFault(build(t, V3, true), ctr)); err != nil {
			o.Fail("store-failed", codec.Name+" Store none", "fault-free Store failed: %v", err)
		}
		if len(seam.Writers) > wb {
			info.NWrites = seam.Writers[len(seam.Writers)-1].Calls
		}
		info.NAccess = ctr.n
	}
	for off := range offsets {
		info.Offsets = append(info.Offsets, off)
	}
	sort.Ints(info.Offsets)
	o.Aux = info
	o.Events, o.Capped, o.LogHash, o.Log = s.Seq, s.Capped, s.Log.H, s.Log.Lines
	st.Inc("runs")
	st.Add("events", int64(s.Seq))
	st.Add("loads", 4)
	if fired {
		st.Inc("fired." + kindNames[kind])
		st.Inc("fired_by_codec." + codec.Name + "." + kindNames[kind])
		st.Distinct("fault_case", sim.HashString(fmt.Sprintf("%s|%x|%d|%s|%d|%d|%d|%v|%v|%v", codec.Name, lp.MhType, lp.MhLength, kindNames[kind], pos%(len(B)+1), bit, chunkMode, outcomes, sticky, withData)))
	}
	if client2 && s.Switches > 8 {
		st.Inc("probe.second_client_interleaved")
	}
	if kind == 0 {
		st.Sample(map[string]interface{}{"codec": codec.Name, "prototype": fmt.Sprintf("%+v", lp.Prefix), "backend": be.name, "block_len": len(B), "value": V.String(), "read_offsets": info.Offsets})
	}
	return o
}

// walkLoads: a parent block links to the block under test from several places; a walk (or a focus)
// over the parent loads it once per place. Storage answers one of those loads -- the first, or a
// later one, after an intact answer -- with a corrupted or substituted copy. Nobody declared storage
// trusted: the call must end in a hash-mismatch error, and no callback may be handed anything at or
// below the place whose load met the bad copy.
func walkLoads(o *sim.Outcome, st *sim.Stats, t *sim.Tape, s *sim.Sim, seam *simstore.Seam, lsys *linking.LinkSystem, codec gen.Codec,
	L, L2 datamodel.Link, B, B2 []byte, mkFault func() *simstore.ReadFault, benign func() *simstore.ReadFault) (fired bool) {
	fn := t.Choice(7, "w.fn")
	nth := t.Choice(3, "w.nth")
	fnName := []string{"WalkAdv", "WalkMatching", "WalkTransforming", "Focus", "Get", "FocusedTransform", "WalkAdv+LinkVisitOnlyOnce"}[fn]
	sig := codec.Name + " " + fnName + " walk"
	// the parent: a dag-cbor or dag-json block (the only codecs that carry links)
	parent, err := qp.BuildList(basicnode.Prototype.Any, -1, func(la datamodel.ListAssembler) {
		qp.ListEntry(la, qp.Link(L))
		qp.ListEntry(la, qp.String("between"))
		qp.ListEntry(la, qp.Map(-1, func(ma datamodel.MapAssembler) {
			qp.MapEntry(ma, "again", qp.Link(L))
			qp.MapEntry(ma, "other", qp.Link(L2))
		}))
		qp.ListEntry(la, qp.Link(L))
	})
	if err != nil {
		o.Fail("harness", sig, "building the parent: %v", err)
		return false
	}
	pcodec := uint64(0x71)
	if t.Bool("w.parentjson") {
		pcodec = 0x0129
	}
	seam.NextRead = func(datamodel.Link) *simstore.ReadFault { return benign() }
	P, err := lsys.Store(linking.LinkContext{}, cidlink.LinkPrototype{Prefix: cid.Prefix{Version: 1, Codec: pcodec, MhType: 0x12, MhLength: 32}}, parent)
	if err != nil {
		o.Fail("setup-store", sig, "fault-free Store of the parent block failed: %v", err)
		return false
	}
	root, err := lsys.Load(linking.LinkContext{}, P, basicnode.Prototype.Any)
	if err != nil {
		o.Fail("setup-store", sig, "fault-free Load of the parent block failed: %v", err)
		return false
	}
	type visit struct {
		path string
		at   int // number of read-opens before it
	}
	var visits []visit
	opensOfL := 0
	badPath, badAt := "", -1
	seam.OnOpen = func(lc linking.LinkContext, l datamodel.Link) {}
	seam.NextRead = func(l datamodel.Link) *simstore.ReadFault {
		if s.Cur() == 0 && l.Binary() == L.Binary() {
			opensOfL++
			if opensOfL-1 == nth {
				f := mkFault()
				f.Tag = 1
				return f
			}
		}
		return benign()
	}
	s.Go("walker", func() {
		s.Yield("op")
		before := len(seam.Readers)
		cfg := &traversal.Config{LinkSystem: *lsys, LinkVisitOnlyOnce: fn == 6, LinkTargetNodePrototypeChooser: func(datamodel.Link, linking.LinkContext) (datamodel.NodePrototype, error) {
			return basicnode.Prototype.Any, nil
		}}
		// the generated blocks hold links to blocks nobody stored: the walk passes those by
		inner := cfg.LinkSystem.StorageReadOpener
		cfg.LinkSystem.StorageReadOpener = func(lc linking.LinkContext, l datamodel.Link) (io.Reader, error) {
			if b := l.Binary(); b != L.Binary() && b != L2.Binary() {
				return nil, traversal.SkipMe{}
			}
			return inner(lc, l)
		}
		ssb := builder.NewSelectorSpecBuilder(basicnode.Prototype.Any)
		sel, _ := ssb.ExploreRecursive(selector.RecursionLimitNone(), ssb.ExploreUnion(ssb.Matcher(), ssb.ExploreAll(ssb.ExploreRecursiveEdge()))).Selector()
		note := func(p traversal.Progress) {
			visits = append(visits, visit{p.Path.String(), len(seam.Readers)})
			s.Yield("callback")
		}
		focusPath := []string{"0", "2/again", "3"}[nth]
		var werr error
		pan := catch(func() {
			prog := traversal.Progress{Cfg: cfg}
			switch fn {
			case 0, 6:
				werr = prog.WalkAdv(root, sel, func(p traversal.Progress, n datamodel.Node, r traversal.VisitReason) error { note(p); return nil })
			case 1:
				werr = prog.WalkMatching(root, sel, func(p traversal.Progress, n datamodel.Node) error { note(p); return nil })
			case 2:
				_, werr = prog.WalkTransforming(root, sel, func(p traversal.Progress, n datamodel.Node) (datamodel.Node, error) { note(p); return n, nil })
			case 3:
				nth = 0 // a focus reaches the block once: that load is the one
				werr = prog.Focus(root, datamodel.ParsePath(focusPath), func(p traversal.Progress, n datamodel.Node) error { note(p); return nil })
			case 4:
				nth = 0
				var n datamodel.Node
				n, werr = prog.Get(root, datamodel.ParsePath(focusPath))
				if werr == nil && n != nil {
					visits = append(visits, visit{focusPath, len(seam.Readers)})
				}
			case 5:
				nth = 0
				_, werr = prog.FocusedTransform(root, datamodel.ParsePath(focusPath), func(p traversal.Progress, n datamodel.Node) (datamodel.Node, error) { note(p); return n, nil }, false)
			}
		})
		var rd *simstore.Reader
		rdIdx := -1
		for i, r := range seam.Readers[before:] {
			if r.F.Tag == 1 {
				rd, rdIdx = r, before+i
				break
			}
		}
		_ = badPath
		_ = badAt
		switch {
		case pan != "":
			o.Fail("panic", sig, "%s panicked: %s", fnName, pan)
		case rd == nil:
			// the walk never made that load (visit-once, fewer places than planned, or it ended earlier
			// at one of the generated blocks' links to blocks nobody stored): an ordinary walk
			var hm linking.ErrHashMismatch
			if errors.As(werr, &hm) {
				o.Fail("benign-delivery-failed", sig, "%s over intact blocks reported a hash mismatch: %v", fnName, werr)
			}
		case rd.R.ErrAt >= 0 || rd.R.OpenErr != nil:
		case hashesTo(L, rd.R.D):
			// an intact copy (a flip that the plan could not place), or a collision on a short digest
			var hm linking.ErrHashMismatch
			if bytes.Equal(rd.R.D, B) && errors.As(werr, &hm) {
				o.Fail("benign-delivery-failed", sig, "%s over intact blocks reported a hash mismatch: %v", fnName, werr)
			}
		default:
			fired = true
			st.Inc("probe.walk_load_met_bad_copy")
			if nth > 0 {
				st.Inc("probe.walk_later_load_met_bad_copy")
			}
			var hm linking.ErrHashMismatch
			if werr == nil {
				o.Fail("unverified-data-returned", sig, "%s returned no error although load #%d of link %s (of the block it reaches in three places) was answered with %d bytes that do not hash to the link", fnName, nth+1, L, len(rd.R.D))
			} else if !errors.As(werr, &hm) {
				o.Fail("hash-mismatch-precedence", sig, "load #%d of the block was answered with bytes that do not hash to the link, but %s returned %T %v, not a hash-mismatch error", nth+1, fnName, werr, werr)
			}
			// no callback for anything that came out of the bad copy: after that load was opened, the
			// walk may only have ended
			for _, v := range visits {
				if v.at > rdIdx {
					o.Fail("unverified-data-returned", sig, "%s handed its callback the node at %q after load #%d of the block had been answered with bytes that do not hash to its link", fnName, v.path, nth+1)
					break
				}
			}
		}
		s.Log.Add(fmt.Sprintf("WALK %s nth=%d err=%v visits=%d", fnName, nth, werr != nil, len(visits)))
	})
	return fired
}

// decodeBlock decodes stored bytes with the decoder registered for the link's codec (fault-free).
func decodeBlock(lsys *linking.LinkSystem, l datamodel.Link, b []byte) (*model.V, error) {
	dec, err := lsys.DecoderChooser(l)
	if err != nil {
		return nil, err
	}
	nb := basicnode.Prototype.Any.NewBuilder()
	if err := dec(nb, bytes.NewReader(b)); err != nil {
		return nil, err
	}
	return model.FromNode(nb.Build())
}

type loadRes struct {
	node datamodel.Node
	raw  []byte
	err  error
	pan  string
}

func catch(f func()) (pan string) {
	defer func() {
		if r := recover(); r != nil {
			if _, ok := r.(interface{ stepCap() }); ok {
				panic(r)
			}
			if fmt.Sprintf("%T", r) == "sim.stepCap" {
				panic(r)
			}
			pan = fmt.Sprintf("%v", r)
		}
	}()
	f()
	return ""
}

func doLoad(lsys *linking.LinkSystem, fn int, l datamodel.Link) (res loadRes) {
	return doLoadInto(lsys, fn, l, basicnode.Prototype.Any)
}

// protoForKind is the kind-specific generic prototype for a value of that kind.
func protoForKind(k model.Kind) datamodel.NodePrototype {
	switch k {
	case model.Map:
		return basicnode.Prototype.Map
	case model.List:
		return basicnode.Prototype.List
	case model.String:
		return basicnode.Prototype.String
	case model.Bytes:
		return basicnode.Prototype.Bytes
	case model.Int:
		return basicnode.Prototype.Int
	case model.Float:
		return basicnode.Prototype.Float
	case model.Bool:
		return basicnode.Prototype.Bool
	case model.Link:
		return basicnode.Prototype.Link
	}
	return basicnode.Prototype.Any
}

// useMust: this run goes through the panicking convenience forms (MustLoad, MustFill, MustStore,
// MustComputeLink) where there is one; the error they panic with is taken as the call's error.
var useMust bool

// catchErr is catch for the Must forms: a panic whose value is an error is that call's error.
func catchErr(f func()) (err error, pan string) {
	defer func() {
		if r := recover(); r != nil {
			if _, ok := r.(interface{ IsStepCap() }); ok {
				panic(r)
			}
			if fmt.Sprintf("%T", r) == "sim.stepCap" {
				panic(r)
			}
			if e, ok := r.(error); ok {
				err = e
				return
			}
			pan = fmt.Sprintf("%v", r)
		}
	}()
	f()
	return nil, ""
}

func doLoadInto(lsys *linking.LinkSystem, fn int, l datamodel.Link, np datamodel.NodePrototype) (res loadRes) {
	if useMust && (fn == 0 || fn == 3) {
		res.err, res.pan = catchErr(func() {
			if fn == 0 {
				res.node = lsys.MustLoad(linking.LinkContext{}, l, np)
				return
			}
			nb := np.NewBuilder()
			lsys.MustFill(linking.LinkContext{}, l, nb)
			res.node = nb.Build()
		})
		if res.err != nil {
			res.node = nil
		}
		return
	}
	res.pan = catch(func() {
		switch fn {
		case 0:
			res.node, res.err = lsys.Load(linking.LinkContext{}, l, np)
		case 1:
			res.raw, res.err = lsys.LoadRaw(linking.LinkContext{}, l)
		case 2:
			res.node, res.raw, res.err = lsys.LoadPlusRaw(linking.LinkContext{}, l, np)
		case 3:
			nb := np.NewBuilder()
			res.err = lsys.Fill(linking.LinkContext{}, l, nb)
			if res.err == nil {
				res.node = nb.Build()
			}
		}
	})
	return
}

// judgeLoad applies the C06 oracle to one load, from the reader's own log.
func judgeLoad(o *sim.Outcome, st *sim.Stats, codec gen.Codec, fn, kind string, L datamodel.Link, B []byte, wantV *model.V, rd *simstore.Reader, res loadRes, trusted bool) string {
	sig := codec.Name + " " + fn + " " + kind
	if trusted {
		sig += " trusted-storage"
	}
	if res.pan != "" {
		o.Fail("panic", sig, "%s panicked under fault %s: %s", fn, kind, res.pan)
		return "panic"
	}
	if rd == nil {
		o.Fail("no-open", sig, "%s never opened the block", fn)
		return "noopen"
	}
	var hm linking.ErrHashMismatch
	isHM := errors.As(res.err, &hm)
	// opener refused
	if rd.R.OpenErr != nil {
		// the property asks that the error surfaces as an error; it need not be the same error value
		if res.err == nil {
			o.Fail("open-error-lost", sig, "opener failed with %v but %s returned a nil error", rd.R.OpenErr, fn)
		} else if !errors.Is(res.err, rd.R.OpenErr) {
			st.Inc("probe.open_error_rewrapped")
		}
		if res.node != nil || len(res.raw) > 0 {
			o.Fail("data-with-error", sig, "%s returned data although the opener failed", fn)
		}
		return "openerr"
	}
	if trusted && kind == "multi" {
		// a corrupted copy AND a read error, with storage declared trusted: the corruption may make the
		// item end early (a flipped length byte), so that the decoder has all it needs before the error
		// arrives -- whether the result is "partial" cannot be told without the hash the caller waived
		return "trusted-unjudged"
	}
	delivered := rd.Delivered
	surfaced := rd.Ended == "err"
	if rd.R.ErrAt == len(B) && rd.R.ErrAt >= 0 {
		st.Inc("probe.error_at_eof_position")
	}
	if surfaced && res.err == nil && bytes.Equal(delivered, rd.R.D) && rd.R.ErrAt >= len(B) {
		// (the error sits at or beyond the stored block's length: it took the place of the EOF)
		// the error arrived only after the complete stream had been delivered (the
		// decoder's end-of-input probe met it): the result is complete data, not
		// partial data. Judged below like any success -- the delivered bytes must hash
		// to the link (they do when they are the stored block, or when a corrupted copy
		// collides with it on a one-byte digest, which the property leaves open).
		st.Inc("probe.late_error_after_complete_block")
		surfaced = false
	}
	if surfaced {
		// the consumer was handed a read error
		if res.err == nil {
			o.Fail("read-error-swallowed", sig, "the reader returned an I/O error after %d bytes but %s returned nil error", len(delivered), fn)
			return "swallowed"
		}
		if res.node != nil {
			o.Fail("data-with-error", sig, "%s returned a node together with an error after a read error", fn)
		}
		if len(res.raw) > 0 && !hashesTo(L, res.raw) {
			o.Fail("data-with-error", sig, "%s returned %d raw bytes that do not hash to the link, after a read error", fn, len(res.raw))
		}
		return "err-after-readerr"
	}
	if trusted {
		// no open or read error reached the consumer: with storage declared trusted nothing else is promised
		return "trusted-unjudged"
	}
	// no error surfaced: judge on what was actually delivered
	dOK := hashesTo(L, delivered)
	if !rd.Drained() {
		st.Inc("probe.consumer_stopped_before_eof")
	}
	if res.err == nil {
		if rd.R.ErrAt < 0 && !hashesTo(L, rd.R.D) {
			// The stored block (the whole stream up to its EOF) does not hash to the link, yet the load
			// succeeded -- whether or not it read that far: a load must verify the block, not a prefix of it.
			o.Fail("unverified-data-returned", sig, "%s succeeded although the stored block (%d bytes; the intact one has %d) does not hash to the link; the consumer read %d bytes of it (stream drained: %v)", fn, len(rd.R.D), len(B), len(delivered), rd.Drained())
			return "UNVERIFIED"
		}
		if !dOK {
			o.Fail("unverified-data-returned", sig, "%s succeeded although the %d bytes the reader delivered do not hash to the link (stored block: %d bytes; stream drained: %v)", fn, len(delivered), len(B), rd.Drained())
			return "UNVERIFIED"
		}
		if res.raw != nil && !bytes.Equal(res.raw, delivered) {
			o.Fail("raw-differs", sig, "%s returned raw bytes that are not the bytes the reader delivered", fn)
		}
		if bytes.Equal(delivered, B) {
			if res.node != nil {
				got, err := model.FromNode(res.node)
				if err != nil || !model.Equal(got, wantV) {
					o.Fail("wrong-node", sig, "%s of intact bytes returned %s, want %s (read err %v)", fn, got, wantV, err)
				}
			} else if fn != "LoadRaw" {
				o.Fail("wrong-node", sig, "%s returned nil node with nil error", fn)
			}
			return "ok"
		}
		st.Inc("probe.hash_collision_short_digest")
		return "ok-collision"
	}
	// an error was returned although the reader never failed
	if res.node != nil {
		o.Fail("data-with-error", sig, "%s returned a node together with error %v", fn, res.err)
	}
	if len(res.raw) > 0 && !hashesTo(L, res.raw) {
		o.Fail("data-with-error", sig, "%s returned %d raw bytes not hashing to the link together with error %v", fn, len(res.raw), res.err)
	}
	full := rd.R.D
	if rd.R.ErrAt < 0 {
		// the stream, if drained, ends in EOF after `full`
		if bytes.Equal(full, B) {
			o.Fail("benign-delivery-failed", sig, "%s failed with %v although the reader delivered exactly the stored bytes (only chunking differed: chunk=%d random=%v eofwith=%v)", fn, res.err, rd.F.Chunk, rd.F.Random, rd.F.EOFWith)
			return "benign-failed"
		}
		if !hashesTo(L, full) {
			if !isHM {
				o.Fail("hash-mismatch-precedence", sig, "the stream (%d bytes, stored %d) does not hash to the link, but %s returned %T %v instead of a hash-mismatch error", len(full), len(B), fn, res.err, res.err)
				return "wrong-error"
			}
			if fn != "LoadRaw" {
				st.Inc("probe.hashmismatch_precedence_over_decode_error")
			}
			if rd.Drained() && len(delivered) > 0 {
				st.Inc("probe.decode_failed_then_drained")
			}
			return "hash-mismatch"
		}
		// corrupted but colliding with a short digest: unconstrained
		st.Inc("probe.hash_collision_short_digest")
		return "err-collision"
	}
	// a read error was planned but the consumer stopped before reaching it and failed anyway: allowed
	return "err-before-readerr"
}

func (sc S06) Unit(u *scen.Unit) {
	base := u.Exec(map[string]int{"f.kind": 0})
	if len(base.Viol) > 0 || base.Aux == nil {
		return
	}
	bi := base.Aux.(*baseInfo)
	n := bi.LenB
	chunkings := []int{0, 1, 2}
	rot := 0
	ex := func(m map[string]int) {
		// each fault under three chunkings; eofwith alternates
		for _, c := range chunkings {
			m2 := map[string]int{}
			for k, v := range m {
				m2[k] = v
			}
			m2["f.chunk"] = c
			m2["f.eofwith"] = rot & 1
			m2["f.caps"] = (rot / 2) % 4
			rot++
			u.Exec(m2)
		}
	}
	var positions []int
	if n <= 512 {
		for i := 0; i < n; i++ {
			positions = append(positions, i)
		}
	} else {
		set := map[int]bool{0: true, n - 1: true, n / 2: true}
		for _, off := range bi.Offsets {
			for d := -1; d <= 1; d++ {
				if p := off + d; p >= 0 && p < n {
					set[p] = true
				}
			}
		}
		for k := 0; k < 64; k++ {
			set[int(sim.SeedFor(int64(u.Seed), "interior", k)%uint64(n))] = true
		}
		for p := range set {
			positions = append(positions, p)
		}
		sort.Ints(positions)
		if maxP := 400; len(positions) > maxP {
			var thin []int
			for k := 0; k < maxP; k++ {
				thin = append(thin, positions[k*(len(positions)-1)/(maxP-1)])
			}
			positions = thin
			u.St.Inc("enum.positions_thinned")
		}
	}
	for _, p := range positions {
		ex(map[string]int{"f.kind": 1, "f.pos": p})
		u.St.Inc("enum.trunc")
		if n <= 64 {
			for b := 0; b < 8; b++ {
				ex(map[string]int{"f.kind": 2, "f.pos": p, "f.bit": b})
				u.St.Inc("enum.flip")
			}
		} else {
			ex(map[string]int{"f.kind": 2, "f.pos": p, "f.bit": int(sim.SeedFor(int64(u.Seed), "bit", p) % 8)})
			u.St.Inc("enum.flip")
		}
	}
	for e := 0; e < 6; e++ {
		ex(map[string]int{"f.kind": 3, "f.ext": e, "f.bigext": 0})
		u.St.Inc("enum.extend")
	}
	u.Exec(map[string]int{"f.kind": 3, "f.ext": 0, "f.bigext": 1, "f.chunk": 0, "f.caps": 0})
	u.Exec(map[string]int{"f.kind": 3, "f.ext": 0, "f.bigext": 1, "f.chunk": 0, "f.caps": 3})
	u.St.Add("enum.extend_large", 2)
	ex(map[string]int{"f.kind": 4})
	u.St.Inc("enum.subst")
	// read errors: every recorded read boundary, the EOF position, seeded interior offsets
	eset := map[int]bool{0: true, n: true}
	for _, off := range bi.Offsets {
		if off <= n {
			eset[off] = true
		}
	}
	for k := 0; k < 12 && n > 0; k++ {
		eset[int(sim.SeedFor(int64(u.Seed), "rerr", k)%uint64(n+1))] = true
	}
	var epos []int
	for p := range eset {
		epos = append(epos, p)
	}
	sort.Ints(epos)
	if maxE := 40; len(epos) > maxE {
		// a decoder that reads byte by byte makes every offset a boundary: thin evenly, keep both ends
		var thin []int
		for k := 0; k < maxE; k++ {
			thin = append(thin, epos[k*(len(epos)-1)/(maxE-1)])
		}
		epos = thin
		u.St.Inc("enum.readerr_positions_thinned")
	}
	for _, p := range epos {
		for sticky := 0; sticky < 2; sticky++ {
			for wd := 0; wd < 2; wd++ {
				ex(map[string]int{"f.kind": 5, "f.pos": p, "f.sticky": sticky, "f.withdata": wd})
				u.St.Inc("enum.readerr")
			}
		}
	}
	ex(map[string]int{"f.kind": 6})
	u.St.Inc("enum.openerr")
	ex(map[string]int{"f.kind": 11})
	u.St.Inc("enum.reread_differs")
	// the block reached by a traversal in three places: every entry point x which of its loads meets
	// the bad copy x the four corruptions, at a seeded position
	for fn := 0; fn < 7; fn++ {
		for nth := 0; nth < 3; nth++ {
			if (fn >= 3 && fn <= 5 || fn == 6) && nth > 0 && fn != 3 && fn != 4 && fn != 5 {
				continue // visit-once reaches the block once
			}
			for c := 0; c < 4; c++ {
				u.Exec(map[string]int{"f.kind": 12, "w.fn": fn, "w.nth": nth, "f.bit": c, "f.ext": fn + nth + c,
					"f.pos": int(sim.SeedFor(int64(u.Seed), "wpos", fn*12+nth*4+c) % uint64(n+1)), "f.chunk": (fn + nth + c) % 4})
				u.St.Inc("enum.walk_loads")
			}
		}
	}
	multi := 8
	if u.Tier == "thorough" {
		multi = 40
	}
	for k := 0; k < multi; k++ {
		u.Exec(map[string]int{"f.kind": 7, "f.pos": int(sim.SeedFor(int64(u.Seed), "m1", k) % uint64(n+1)), "f.pos2": int(sim.SeedFor(int64(u.Seed), "m2", k) % uint64(n+2)),
			"f.ext": k, "f.chunk": k % 4, "f.sticky": k & 1, "f.withdata": (k >> 1) & 1})
		u.St.Inc("enum.multi")
	}
	// store side
	for j := 0; j+1 < bi.NWrites && j < 200; j++ {
		u.Exec(map[string]int{"f.kind": 13, "f.pos": j, "f.caps": j & 1})
		u.St.Inc("enum.cancel_midway")
	}
	for j := 0; j < bi.NWrites && j < 300; j++ {
		u.Exec(map[string]int{"f.kind": 8, "f.pos": j, "f.pos2": 0, "f.sticky": 0, "f.caps": j & 1})
		u.Exec(map[string]int{"f.kind": 8, "f.pos": j, "f.pos2": 1 + int(sim.SeedFor(int64(u.Seed), "partial", j)%7), "f.sticky": 0})
		// transient failure: only this one Write fails, later ones succeed again
		u.Exec(map[string]int{"f.kind": 8, "f.pos": j, "f.pos2": 0, "f.sticky": 1})
		u.St.Add("enum.writeerr", 3)
	}
	u.Exec(map[string]int{"f.kind": 9})
	u.St.Inc("enum.commiterr")
	for k := 0; k < bi.NAccess && k < 200; k++ {
		u.Exec(map[string]int{"f.kind": 10, "f.pos": k, "f.caps": k & 1})
		u.St.Inc("enum.encfail")
	}
}
