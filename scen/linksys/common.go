// Package linksys decides C05 (links are a function of value and prototype;
// store then load returns the value) and C06 (no load returns data that does
// not hash to its link, whatever the storage does).
//
// The real LinkSystem, multicodec registry, codecs (and refmt underneath),
// go-cid, go-multihash hashers and block stores run unmodified; only the
// streams between link system and store are the simulator's (simstore).
package linksys

import (
	"crypto/sha256"
	"crypto/sha3"
	"crypto/sha512"
	"fmt"
	"os"
	"path/filepath"

	cid "github.com/ipfs/go-cid"
	_ "github.com/ipld/go-ipld-prime/codec/cbor"
	_ "github.com/ipld/go-ipld-prime/codec/dagcbor"
	_ "github.com/ipld/go-ipld-prime/codec/dagjson"
	_ "github.com/ipld/go-ipld-prime/codec/json"
	_ "github.com/ipld/go-ipld-prime/codec/raw"
	"github.com/ipld/go-ipld-prime/datamodel"
	"github.com/ipld/go-ipld-prime/linking"
	cidlink "github.com/ipld/go-ipld-prime/linking/cid"
	"github.com/ipld/go-ipld-prime/node/basicnode"
	"github.com/ipld/go-ipld-prime/storage/memstore"
	mh "github.com/multiformats/go-multihash"
	"golang.org/x/crypto/blake2b"

	"verif/gen"
	"verif/model"
	"verif/sim"
)

// indepDigest hashes data with the Go standard library / x/crypto — never with
// the library under test — and truncates as the prototype says.
func indepDigest(p cid.Prefix, data []byte) ([]byte, error) {
	var d []byte
	switch p.MhType {
	case mh.SHA2_256:
		s := sha256.Sum256(data)
		d = s[:]
	case mh.SHA2_512:
		s := sha512.Sum512(data)
		d = s[:]
	case mh.SHA3_256:
		s := sha3.Sum256(data)
		d = s[:]
	case mh.SHA3_512:
		s := sha3.Sum512(data)
		d = s[:]
	case mh.BLAKE2B_MIN + 31:
		s := blake2b.Sum256(data)
		d = s[:]
	case mh.IDENTITY:
		return append([]byte(nil), data...), nil
	default:
		return nil, fmt.Errorf("harness has no independent hash for multihash 0x%x", p.MhType)
	}
	if p.MhLength >= 0 && p.MhLength < len(d) {
		d = d[:p.MhLength]
	}
	return d, nil
}

// linkDigest extracts (prefix, digest) from a link with go-cid/go-multihash parsing.
func linkDigest(l datamodel.Link) (cid.Prefix, []byte, error) {
	cl, ok := l.(cidlink.Link)
	if !ok {
		return cid.Prefix{}, nil, fmt.Errorf("not a cidlink.Link: %T", l)
	}
	dm, err := mh.Decode(cl.Cid.Hash())
	if err != nil {
		return cid.Prefix{}, nil, err
	}
	return cl.Cid.Prefix(), dm.Digest, nil
}

// HashesTo is hashesTo for other scenarios.
func HashesTo(l datamodel.Link, data []byte) bool { return hashesTo(l, data) }

// hashesTo reports whether data hashes to the link, independently computed.
func hashesTo(l datamodel.Link, data []byte) bool {
	p, dg, err := linkDigest(l)
	if err != nil {
		return false
	}
	if p.MhLength < 0 || p.MhType == mh.IDENTITY {
		p.MhLength = -1
	}
	// The digest length in the link is what matters: compare that many bytes.
	p.MhLength = len(dg)
	if p.MhType == mh.IDENTITY {
		p.MhLength = -1
	}
	d, err := indepDigest(p, data)
	if err != nil {
		panic(err)
	}
	return string(d) == string(dg)
}

// backend abstracts over the stores a link system is wired to.
type backend struct {
	name string
	mem  *memstore.Store
	cmem *cidlink.Memory
}

func (b *backend) wire(lsys *linking.LinkSystem) {
	if b.mem != nil {
		lsys.SetReadStorage(b.mem)
		lsys.SetWriteStorage(b.mem)
	} else {
		lsys.StorageReadOpener = b.cmem.OpenRead
		lsys.StorageWriteOpener = b.cmem.OpenWrite
	}
}

func (b *backend) nkeys() int {
	if b.mem != nil {
		return len(b.mem.Bag)
	}
	return len(b.cmem.Bag)
}

func (b *backend) bytesOf(l datamodel.Link) ([]byte, bool) {
	if b.mem != nil {
		x, ok := b.mem.Bag[l.Binary()]
		return x, ok
	}
	x, ok := b.cmem.Bag[string(l.(cidlink.Link).Hash())]
	return x, ok
}

func newBackend(t *sim.Tape) *backend {
	if t.Choice(3, "cfg.backend") == 2 {
		return &backend{name: "cidlink.Memory", cmem: &cidlink.Memory{}}
	}
	return &backend{name: "memstore", mem: &memstore.Store{}}
}

// build materialises an abstract value as a basicnode tree with a tape-chosen map insertion order.
func build(t *sim.Tape, v *model.V, permute bool) datamodel.Node {
	nb := basicnode.Prototype.Any.NewBuilder()
	var perm func(n int) []int
	if permute {
		perm = func(n int) []int {
			idx := make([]int, n)
			for i := range idx {
				idx[i] = i
			}
			for i := n - 1; i > 0; i-- {
				j := t.Choice(i+1, "perm")
				idx[i], idx[j] = idx[j], idx[i]
			}
			return idx
		}
	}
	if err := model.Assemble(nb, v, gen.LinkFromBin, perm); err != nil {
		panic(fmt.Sprintf("harness: cannot build generated value %s: %v", v, err))
	}
	return nb.Build()
}

// faultNode is a read-only proxy that makes the k-th fallible accessor call
// (As*, iterator Next) return an error: a node that fails mid-encode.
type faultNode struct {
	datamodel.Node
	c *faultCtr
}
type faultCtr struct {
	n, at int
	fired bool
}

var errNodeFault = fmt.Errorf("injected node accessor failure")

func (c *faultCtr) hit() bool {
	c.n++
	if c.n-1 == c.at {
		c.fired = true
		return true
	}
	return false
}

func wrapFault(n datamodel.Node, c *faultCtr) datamodel.Node {
	if n == nil {
		return nil
	}
	return faultNode{n, c}
}
func (f faultNode) AsBool() (bool, error) {
	if f.c.hit() {
		return false, errNodeFault
	}
	return f.Node.AsBool()
}
func (f faultNode) AsInt() (int64, error) {
	if f.c.hit() {
		return 0, errNodeFault
	}
	return f.Node.AsInt()
}
func (f faultNode) AsFloat() (float64, error) {
	if f.c.hit() {
		return 0, errNodeFault
	}
	return f.Node.AsFloat()
}
func (f faultNode) AsString() (string, error) {
	if f.c.hit() {
		return "", errNodeFault
	}
	return f.Node.AsString()
}
func (f faultNode) AsBytes() ([]byte, error) {
	if f.c.hit() {
		return nil, errNodeFault
	}
	return f.Node.AsBytes()
}
func (f faultNode) AsLink() (datamodel.Link, error) {
	if f.c.hit() {
		return nil, errNodeFault
	}
	return f.Node.AsLink()
}
func (f faultNode) MapIterator() datamodel.MapIterator {
	it := f.Node.MapIterator()
	if it == nil {
		return nil
	}
	return &faultMapIt{it, f.c}
}
func (f faultNode) ListIterator() datamodel.ListIterator {
	it := f.Node.ListIterator()
	if it == nil {
		return nil
	}
	return &faultListIt{it, f.c}
}
func (f faultNode) LookupByString(k string) (datamodel.Node, error) {
	n, err := f.Node.LookupByString(k)
	return wrapFault(n, f.c), err
}
func (f faultNode) LookupByIndex(i int64) (datamodel.Node, error) {
	n, err := f.Node.LookupByIndex(i)
	return wrapFault(n, f.c), err
}

type faultMapIt struct {
	datamodel.MapIterator
	c *faultCtr
}

func (it *faultMapIt) Next() (datamodel.Node, datamodel.Node, error) {
	if it.c.hit() {
		return nil, nil, errNodeFault
	}
	k, v, err := it.MapIterator.Next()
	return wrapFault(k, it.c), wrapFault(v, it.c), err
}

type faultListIt struct {
	datamodel.ListIterator
	c *faultCtr
}

func (it *faultListIt) Next() (int64, datamodel.Node, error) {
	if it.c.hit() {
		return 0, nil, errNodeFault
	}
	i, v, err := it.ListIterator.Next()
	return i, wrapFault(v, it.c), err
}

func shmRoot() string {
	for _, d := range []string{"/dev/shm", os.TempDir()} {
		p := filepath.Join(d, fmt.Sprintf("verif-sim-%d", os.Getpid()))
		if err := os.MkdirAll(p, 0777); err == nil {
			return p
		}
	}
	panic("no scratch directory")
}
