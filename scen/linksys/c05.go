package linksys

import (
	"bytes"
	"context"
	"errors"
	"fmt"
	"github.com/ipld/go-ipld-prime/zzsimhook"
	"os"
	"path/filepath"
	"sync/atomic"
	"syscall"

	ipld "github.com/ipld/go-ipld-prime"
	"github.com/ipld/go-ipld-prime/codec/dagcbor"
	"github.com/ipld/go-ipld-prime/datamodel"
	"github.com/ipld/go-ipld-prime/linking"
	cidlink "github.com/ipld/go-ipld-prime/linking/cid"
	"github.com/ipld/go-ipld-prime/multicodec"
	"github.com/ipld/go-ipld-prime/node/basicnode"
	"github.com/ipld/go-ipld-prime/node/bindnode"
	"github.com/ipld/go-ipld-prime/schema"
	"github.com/ipld/go-ipld-prime/storage"
	"github.com/ipld/go-ipld-prime/storage/fsstore"
	"github.com/ipld/go-ipld-prime/storage/memstore"
	"github.com/ipld/go-ipld-prime/storage/sharding"

	"verif/gen"
	"verif/model"
	"verif/scen"
	"verif/sim"
	"verif/simos"
	"verif/simstore"
)

// S05 decides C05.
type S05 struct{}

func (S05) ID() string    { return "C05" }
func (S05) Level() string { return "exploration" }

func (S05) Info() scen.Info {
	return scen.Info{
		Rule: "unit = one seeded history of <=40 Store / ComputeLink / Load / LoadRaw / LoadPlusRaw / Fill operations by 1-3 interleaved clients sharing ONE link system (default or private multicodec registry) over ONE backend (memstore, cidlink.Memory, fsstore default/custom on the simulated disk; optional interfaces hidden or not), on a corpus of 3-8 values materialised with different map insertion orders, by the generic node implementation, by a reflection-bound Go struct and by previously loaded nodes, under 2-4 link prototypes (CID v0/v1 x 5 codecs x 6 multihashes x full/truncated digests); reads are chunked at seeded sizes. Fault-free profile. " +
			"distinct_nontrivial counts distinct hash(backend, registry, sequence of (op, prototype class, value id, outcome)) over histories in which some value was stored and later loaded. Later additions: trusted-storage and identity-reifier switches, ipld.Encode cross-check, multi-entry dag-json maps with a slash key and near misses of the reserved forms.",
		DistinctSet: "history",
		Assumptions: []string{
			"the digest in every returned link is re-computed by the harness with Go stdlib / x/crypto over the bytes found in storage under that link",
			"map order is canonicalised before comparison only for dag-cbor / dag-json (the key-sorting codecs); exact order for cbor / json",
			"values are generated inside each codec's value domain (e.g. JSON floats keep a fractional part: whether 1.0 survives dag-json is C04's question)",
			"cidlink.Memory aliases links by multihash by documented design; 'never stored' is judged by multihash there",
			"no corrupting fault is injected: C05 is about a correct environment (C06 covers faults)",
		},
		Components: map[string]string{
			"linking.LinkSystem, linking/cid, multicodec.Registry, codecs, refmt, go-cid, go-multihash, memstore, cidlink.Memory, fsstore, storage/funcs.go, bindnode": "real",
			"block streams":        "stub: simstore delivers exact bytes at seeded chunk sizes and yields at every call",
			"filesystem":           "real tmpfs under simos (yield at every fs call, no faults)",
			"goroutine scheduling": "stub: seeded one-at-a-time scheduler",
		},
		QuickUnits: 80000, ThoroughUnits: 3000000, QuickSecs: 240, ThoroughSecs: 1200,
		ProbeKeys: []string{"probe.typed_node_with_renaming_representation", "probe.trusted_storage", "probe.identity_reifier", "probe.store_then_load", "probe.same_value_two_orders", "probe.same_value_two_impls", "probe.load_never_stored", "probe.reload_of_loaded_node_stored", "probe.fill_reused_builder", "probe.cidv0", "probe.identity_hash", "probe.truncated_digest", "probe.concurrent_store_load"},
		EventsKey: "events",
	}
}

type basicOnly struct {
	r storage.ReadableStorage
	w storage.WritableStorage
}

func (b basicOnly) Has(ctx context.Context, k string) (bool, error)   { return b.r.Has(ctx, k) }
func (b basicOnly) Get(ctx context.Context, k string) ([]byte, error) { return b.r.Get(ctx, k) }
func (b basicOnly) Put(ctx context.Context, k string, c []byte) error { return b.w.Put(ctx, k, c) }

// bound is the Go type used to materialise record-shaped values through bindnode.
type bound struct {
	Name string
	N    int64
	Tags []string
}

// newBoundTS compiles the record schema; every simulated world gets its own (set in RunTape).
func newBoundTS() *schema.TypeSystem {
	ts, err := ipld.LoadSchemaBytes([]byte(`
type Rec struct {
	Name String
	N Int
	Tags [String]
}
type RecRenamed struct {
	Name String (rename "n")
	N Int (rename "i")
	Tags [String] (rename "t")
}`))
	if err != nil {
		panic(err)
	}
	return ts
}

var boundTS *schema.TypeSystem // the running world's; one world runs at a time per process

func recordValue(t *sim.Tape) *model.V {
	tags := &model.V{K: model.List}
	for i, n := 0, t.Choice(4, "rec.ntags"); i < n; i++ {
		tags.Vals = append(tags.Vals, model.StringV([]string{"a", "bb", "héllo", "x y"}[t.Choice(4, "rec.tag")]))
	}
	return model.MapV().Put("Name", model.StringV([]string{"", "n", "name", "日本"}[t.Choice(4, "rec.name")])).
		Put("N", model.IntV([]int64{0, -1, 255, 1 << 40}[t.Choice(4, "rec.n")])).Put("Tags", tags)
}

func recordNode(v *model.V) datamodel.Node {
	return bindnode.Wrap(recordGo(v), boundTS.TypeByName("Rec")).Representation()
}

func recordGo(v *model.V) *bound {
	g := &bound{Name: v.Get("Name").S, N: v.Get("N").I}
	for _, x := range v.Get("Tags").Vals {
		g.Tags = append(g.Tags, x.S)
	}
	if g.Tags == nil {
		g.Tags = []string{}
	}
	return g
}

// recordTypedNode is the same record as a TYPED node (type-level view) of a struct type whose
// representation renames every field: handed to the link system as it is, its data-model value is
// what its type-level view reads as, whichever entry point is used.
func recordTypedNode(v *model.V) datamodel.Node {
	return bindnode.Wrap(recordGo(v), boundTS.TypeByName("RecRenamed"))
}

var c05Counter int64

type c05val struct {
	v      *model.V
	record bool
	codecs map[string]bool
}

func (S05) RunTape(t *sim.Tape, st *sim.Stats, keepLog bool) *sim.Outcome {
	o := &sim.Outcome{}
	boundTS = newBoundTS()
	useMust = t.Pct(20, "cfg.must")
	defer func() { useMust = false }()
	if useMust {
		st.Inc("probe.must_forms")
	}
	s := sim.NewSim(t, sim.NewChanBaton())
	s.Log.Keep = keepLog
	s.MaxSteps = 400000
	s.MaxQ = []int{0, 3, 12}[t.Choice(3, "cfg.maxq")]
	zzsimhook.Yield = s.Yield // function-entry yields inside linking and storage packages (build overlay)
	zzsimhook.YieldBlocked = s.YieldBlocked
	defer func() { zzsimhook.Yield, zzsimhook.YieldBlocked = nil, nil }()

	// ---- link system ----
	private := t.Bool("cfg.private_registry")
	var lsys linking.LinkSystem
	if private {
		reg := multicodec.Registry{}
		for _, code := range multicodec.ListEncoders() {
			e, _ := multicodec.LookupEncoder(code)
			reg.RegisterEncoder(code, e)
		}
		for _, code := range multicodec.ListDecoders() {
			d, _ := multicodec.LookupDecoder(code)
			reg.RegisterDecoder(code, d)
		}
		// CIDv0 carries the dag-pb codec number; map it so v0 prototypes are exercisable
		reg.RegisterEncoder(0x70, dagcbor.Encode)
		reg.RegisterDecoder(0x70, dagcbor.Decode)
		lsys = cidlink.LinkSystemUsingMulticodecRegistry(reg)
	} else {
		lsys = cidlink.DefaultLinkSystem()
	}

	// ---- backend ----
	bk := t.Choice(4, "cfg.backend")
	hide := t.Bool("cfg.hide")
	var bname string
	var rawGet func(l datamodel.Link) ([]byte, bool)
	var d *simos.Disk
	switch bk {
	case 0:
		ms := &memstore.Store{}
		bname = "memstore"
		if hide {
			lsys.SetReadStorage(basicOnly{ms, ms})
			lsys.SetWriteStorage(basicOnly{ms, ms})
			bname += "+basicOnly"
		} else {
			lsys.SetReadStorage(ms)
			lsys.SetWriteStorage(ms)
		}
		rawGet = func(l datamodel.Link) ([]byte, bool) { b, ok := ms.Bag[l.Binary()]; return b, ok }
	case 1:
		cm := &cidlink.Memory{}
		bname = "cidlink.Memory"
		lsys.StorageReadOpener = cm.OpenRead
		lsys.StorageWriteOpener = cm.OpenWrite
		rawGet = func(l datamodel.Link) ([]byte, bool) { b, ok := cm.Bag[string(l.(cidlink.Link).Hash())]; return b, ok }
	default:
		root := filepath.Join(shmRoot(), fmt.Sprintf("l%d", atomic.AddInt64(&c05Counter, 1)))
		base := filepath.Join(root, "store")
		if err := os.MkdirAll(base, 0777); err != nil {
			panic(err)
		}
		d = simos.NewDisk(s, base)
		d.Install()
		defer func() {
			simos.Uninstall()
			d.CloseAll()
			os.RemoveAll(root)
		}()
		fs := &fsstore.Store{}
		var err error
		if bk == 2 {
			bname = "fsstore(defaults)"
			err = fs.InitDefaults(base)
		} else {
			bname = "fsstore(hex,r122)"
			err = fs.Init(base, func(k string) string { return fmt.Sprintf("%x", k) }, sharding.Shard_r122)
		}
		if err != nil {
			o.Fail("init", "fsstore.Init", "Init failed: %v", err)
			return o
		}
		if hide {
			lsys.SetReadStorage(basicOnly{fs, fs})
			lsys.SetWriteStorage(basicOnly{fs, fs})
			bname += "+basicOnly"
		} else {
			lsys.SetReadStorage(fs)
			lsys.SetWriteStorage(fs)
		}
		chk := &fsstore.Store{}
		rawGet = func(l datamodel.Link) ([]byte, bool) {
			if chk == nil {
				return nil, false
			}
			b, err := fs.Get(context.Background(), l.Binary())
			return b, err == nil
		}
	}
	seam := &simstore.Seam{S: s, T: t}
	seam.NextRead = func(datamodel.Link) *simstore.ReadFault {
		return &simstore.ReadFault{Err2At: -1, Chunk: []int{0, 0, 1, 7, 4096}[t.Choice(5, "chunk")], Random: t.Bool("chunk.random"), EOFWith: t.Bool("chunk.eofwith"), Stall: t.Choice(3, "stall")}
	}
	seam.Wrap(&lsys)
	// two switches that must not change anything over honest storage: storage declared trusted
	// (loads skip the hash check) and a NodeReifier that hands every loaded node back as it is
	if t.Pct(20, "cfg.trusted") {
		lsys.TrustedStorage = true
		st.Inc("probe.trusted_storage")
	}
	if t.Pct(20, "cfg.reifier") {
		lsys.NodeReifier = func(_ linking.LinkContext, n datamodel.Node, _ *linking.LinkSystem) (datamodel.Node, error) {
			return n, nil
		}
		st.Inc("probe.identity_reifier")
	}

	// ---- corpus and prototypes ----
	nproto := 2 + t.Choice(3, "nproto")
	var protos []gen.Proto
	for i := 0; i < nproto; i++ {
		p := gen.LinkProtoMin(t, gen.Codecs, private, 6)
		protos = append(protos, p)
		if p.Version == 0 {
			st.Inc("probe.cidv0")
		}
		if p.MhType == 0 {
			st.Inc("probe.identity_hash")
		}
		if p.MhLength > 0 && p.MhLength < 32 {
			st.Inc("probe.truncated_digest")
		}
	}
	cids := gen.SomeCids(t, 3)
	nvals := 3 + t.Choice(6, "nvals")
	var vals []c05val
	// a value is tied to one prototype's codec domain (chosen per value)
	var vproto []int
	for i := 0; i < nvals; i++ {
		pi := t.Choice(nproto, "val.proto")
		c := protos[pi].Codec
		if protos[pi].Version == 0 {
			c = gen.DagCbor
		}
		var v *model.V
		rec := false
		if !c.RawOnly && t.Pct(20, "val.record") {
			v, rec = recordValue(t), true
		} else {
			b := 3 + t.Choice(28, "val.size")
			v = gen.Value(t, c, cids, &b, 0)
		}
		vals = append(vals, c05val{v: v, record: rec})
		vproto = append(vproto, pi)
	}
	codecOf := func(pi int) gen.Codec {
		if protos[pi].Version == 0 {
			return gen.DagCbor
		}
		return protos[pi].Codec
	}

	// ---- model (touched only by the running task) ----
	type storedInfo struct {
		val      int
		doneSeq  uint64 // event seq when the first Store of it returned
		startSeq uint64 // event seq when the first Store of it was invoked
	}
	linkOf := map[string]string{}       // (proto, canonical value hash) -> link binary
	stored := map[string]*storedInfo{}  // link binary -> info
	storeStarted := map[string]uint64{} // link binary -> seq at which the first Store producing it was invoked
	loaded := map[int]datamodel.Node{}  // value id -> a node previously loaded from storage
	type rawKept struct {
		b []byte
		h uint64
		l string
	}
	var keptRaw []rawKept // byte slices LoadRaw / LoadPlusRaw handed out: the caller owns them
	storedMh := map[string]bool{}
	var hist []string
	nontrivial := false
	sawOrders := map[int]map[uint64]bool{}
	ncl := 1 + t.Choice(3, "nclients")
	type opPlan struct {
		kind, val int
		how       int
	}
	plans := make([][]opPlan, ncl)
	total := 0
	for c := 0; c < ncl; c++ {
		for total < 40 && len(plans[c]) < 18 && t.Begin("op", 90) {
			plans[c] = append(plans[c], opPlan{kind: []int{0, 0, 0, 1, 1, 2, 2, 3, 4, 5, 6}[t.Choice(11, "op.kind")], val: t.Choice(nvals, "op.val"), how: t.Choice(4, "op.how")})
			total++
			t.End()
		}
	}
	s.Log.Add(fmt.Sprintf("CFG backend=%s private_registry=%v protos=%d values=%d clients=%d", bname, private, nproto, nvals, ncl))
	for i, p := range protos {
		s.Log.Add(fmt.Sprintf("PROTO %d %s %+v", i, p.Codec.Name, p.Prefix))
	}
	for i, v := range vals {
		s.Log.Add(fmt.Sprintf("VALUE %d proto=%d record=%v %s", i, vproto[i], v.record, v.v))
	}

	materialise := func(vi, how int) (datamodel.Node, string) {
		v := vals[vi]
		c := codecOf(vproto[vi])
		switch {
		case how == 3 && loaded[vi] != nil:
			st.Inc("probe.reload_of_loaded_node_stored")
			return loaded[vi], "loaded"
		case how == 2 && v.record:
			st.Inc("probe.same_value_two_impls")
			return recordNode(v.v), "bindnode"
		case how == 1 && v.record:
			st.Inc("probe.typed_node_with_renaming_representation")
			return recordTypedNode(v.v), "bindnode-typed(renaming representation)"
		}
		permute := c.SortMode != model.SortNone && how != 0
		n := build(t, v.v, permute)
		if permute {
			if got, err := model.FromNode(n); err == nil {
				if sawOrders[vi] == nil {
					sawOrders[vi] = map[uint64]bool{}
				}
				sawOrders[vi][got.Hash()] = true
				if len(sawOrders[vi]) == 2 {
					st.Inc("probe.same_value_two_orders")
				}
			}
		}
		return n, "basicnode"
	}

	checkLink := func(sig string, pi int, vi int, l datamodel.Link, fromStore bool) {
		lp := protos[pi]
		c := codecOf(pi)
		cl, ok := l.(cidlink.Link)
		if !ok {
			o.Fail("link-type", sig, "link is %T", l)
			return
		}
		pf := cl.Cid.Prefix()
		if pf.Version != lp.Version || pf.Codec != lp.Prefix.Codec || pf.MhType != lp.MhType {
			o.Fail("link-prefix", sig, "link %s has prefix %+v, prototype was %+v", l, pf, lp.Prefix)
		}
		key := fmt.Sprintf("%d|%x", pi, vals[vi].v.Canon(c.SortMode).Hash())
		if prev, ok := linkOf[key]; ok && prev != l.Binary() {
			o.Fail("link-not-a-function", sig, "value #%d under prototype #%d (%s) got link %s now but %x earlier in this history (same value, same prototype)", vi, pi, c.Name, l, prev)
		}
		linkOf[key] = l.Binary()
		if fromStore {
			b, ok := rawGet(l)
			if !ok {
				o.Fail("stored-block-missing", sig, "Store returned %s but the backend holds nothing under it", l)
				return
			}
			if !hashesTo(l, b) {
				o.Fail("store-link-hash", sig, "Store returned %s but the %d bytes in storage under it do not hash to it (independent hash)", l, len(b))
			}
			wantLen := lp.MhLength
			if _, dg, err := linkDigest(l); err == nil && wantLen > 0 && lp.MhType != 0 && len(dg) != wantLen {
				o.Fail("link-digest-length", sig, "digest is %d bytes, prototype says %d", len(dg), wantLen)
			}
		}
	}

	do := func(client int, p opPlan) {
		vi := p.val
		pi := vproto[vi]
		lp := protos[pi].LinkPrototype
		c := codecOf(pi)
		sig := fmt.Sprintf("%s %s", bname0(bname), c.Name)
		want := vals[vi].v.Canon(c.SortMode)
		inv := s.Stamp()
		switch p.kind {
		case 0: // Store, then ComputeLink must agree
			n, impl := materialise(vi, p.how)
			var l datamodel.Link
			var err error
			// remember that a Store which will produce this link has begun. Keyed by the link itself
			// (two prototypes of a run can be equivalent, e.g. two CIDv0 prototypes); ComputeLink is
			// the instrument here, its agreement with Store is judged separately.
			if pl, perr := lsys.ComputeLink(lp, n); perr == nil {
				if _, ok := storeStarted[pl.Binary()]; !ok {
					storeStarted[pl.Binary()] = inv
				}
				// cidlink.Memory is keyed by multihash: a store in flight makes every link over that multihash loadable
				mk := "mh:" + string(pl.(cidlink.Link).Hash())
				if _, ok := storeStarted[mk]; !ok {
					storeStarted[mk] = inv
				}
			}
			var pan string
			if useMust {
				err, pan = catchErr(func() { l = lsys.MustStore(linking.LinkContext{}, lp, n) })
			} else {
				pan = catch(func() { l, err = lsys.Store(linking.LinkContext{}, lp, n) })
			}
			if err != nil && d != nil && (errors.Is(err, syscall.ENAMETOOLONG) || (ncl > 1 && errors.Is(err, syscall.EEXIST))) {
				// the filesystem's name-length limit, or fsstore losing a mkdir race to a concurrent
				// writer: availability of the backend, not a statement about links
				st.Inc("probe.fsstore_refused_put")
				return
			}
			if pan != "" || err != nil {
				o.Fail("store-failed", sig, "Store of value #%d (%s, %s) failed: err=%v panic=%s", vi, impl, vals[vi].v, err, pan)
				return
			}
			checkLink(sig+" Store", pi, vi, l, true)
			if _, ok := stored[l.Binary()]; !ok {
				stored[l.Binary()] = &storedInfo{val: vi, startSeq: inv, doneSeq: s.Stamp()}
				storedMh[string(l.(cidlink.Link).Hash())] = true
			}
			n2, _ := materialise(vi, (p.how+1)%3)
			l2, err := lsys.ComputeLink(lp, n2)
			if err != nil || l2.Binary() != l.Binary() {
				o.Fail("store-computelink-disagree", sig, "Store returned %s but ComputeLink of the same value returns %v (err %v)", l, l2, err)
			}
			hist = append(hist, fmt.Sprintf("c%d Store(v%d,%s)", client, vi, impl))
		case 1: // ComputeLink
			n, impl := materialise(vi, p.how)
			var l datamodel.Link
			var err error
			if useMust {
				err, _ = catchErr(func() { l = lsys.MustComputeLink(lp, n) })
			} else {
				l, err = lsys.ComputeLink(lp, n)
			}
			if err != nil {
				o.Fail("computelink-failed", sig, "ComputeLink of value #%d failed: %v", vi, err)
				return
			}
			checkLink(sig+" ComputeLink", pi, vi, l, false)
			// the codec helper's bytes, hashed independently, give the same link
			if _, typed := n.(schema.TypedNode); typed {
				// ipld.Encode writes a typed node's representation; the link system takes the node as given
			} else if enc, eerr := lsys.EncoderChooser(lp); eerr == nil {
				if b, berr := ipld.Encode(n, enc); berr != nil {
					o.Fail("computelink-failed", sig, "ipld.Encode of value #%d failed (%v) although ComputeLink succeeded", vi, berr)
				} else if !hashesTo(l, b) {
					o.Fail("link-not-hash-of-encoding", sig, "ComputeLink of value #%d returns %s, which is not the hash of ipld.Encode's %d bytes under the same encoder (independent hash)", vi, l, len(b))
				}
			}
			hist = append(hist, fmt.Sprintf("c%d ComputeLink(v%d,%s)", client, vi, impl))
		default: // loads
			key := fmt.Sprintf("%d|%x", pi, want.Hash())
			lb, known := linkOf[key]
			if !known {
				// compute the link without touching storage
				n, _ := materialise(vi, 0)
				l, err := lsys.ComputeLink(lp, n)
				if err != nil {
					return
				}
				lb = l.Binary()
				linkOf[key] = lb
			}
			l := gen.LinkFromBin(lb)
			fn := p.kind - 2
			if fn > 3 {
				fn = 3
			}
			var res loadRes
			if p.kind == 6 {
				// Fill into a builder that was used before and reset
				nb := basicnode.Prototype.Any.NewBuilder()
				nb.AssignString("previous content")
				nb.Build()
				nb.Reset()
				res.pan = catch(func() { res.err = lsys.Fill(linking.LinkContext{}, l, nb) })
				if res.err == nil && res.pan == "" {
					res.node = nb.Build()
				}
				st.Inc("probe.fill_reused_builder")
			} else {
				res = doLoad(&lsys, fn, l)
			}
			ret := s.Stamp()
			si := stored[lb]
			mhStored := storedMh[string(l.(cidlink.Link).Hash())]
			name := fnNames[fn]
			switch {
			case res.pan != "":
				o.Fail("panic", sig+" "+name, "%s panicked: %s", name, res.pan)
			case si != nil && si.doneSeq < inv:
				// stored before this load began: must succeed with the value
				if res.err != nil {
					o.Fail("load-after-store-failed", sig+" "+name, "%s of %s failed (%v) although its Store had returned", name, l, res.err)
					return
				}
				nontrivial = true
				st.Inc("probe.store_then_load")
			case res.err == nil && si == nil && !(bk == 1 && mhStored):
				// never stored (nor aliased by multihash in cidlink.Memory) and nothing in flight
				started, inflight := storeStarted[lb]
				if bk == 1 && !inflight {
					started, inflight = storeStarted["mh:"+string(l.(cidlink.Link).Hash())]
				}
				if !inflight || started > ret {
					o.Fail("load-never-stored-succeeded", sig+" "+name, "%s of %s succeeded although nothing was ever stored under it", name, l)
				}
				return
			case res.err != nil:
				st.Inc("probe.load_never_stored")
				hist = append(hist, fmt.Sprintf("c%d %s(v%d)->err", client, name, vi))
				return
			default:
				st.Inc("probe.concurrent_store_load")
			}
			if res.node != nil {
				got, err := model.FromNode(res.node)
				if err != nil || !model.Equal(got, want) {
					if !(bk == 1 && si == nil) { // multihash-aliased block of another codec: not this value
						o.Fail("load-wrong-value", sig+" "+name, "%s of %s returned %s, stored value was %s (read err %v)", name, l, got, want, err)
					}
				} else {
					loaded[vi] = res.node
				}
			} else if fn != 1 {
				o.Fail("load-wrong-value", sig+" "+name, "%s returned a nil node with nil error", name)
			}
			if res.raw != nil && len(keptRaw) < 24 {
				keptRaw = append(keptRaw, rawKept{res.raw, sim.HashString(string(res.raw)), tailOf(lb)})
			}
			if res.raw != nil {
				if b, ok := rawGet(l); ok && !bytes.Equal(b, res.raw) {
					o.Fail("load-wrong-raw", sig+" "+name, "%s returned raw bytes that differ from the bytes in storage", name)
				}
				if !hashesTo(l, res.raw) {
					o.Fail("load-wrong-raw", sig+" "+name, "%s returned raw bytes that do not hash to the link", name)
				}
			}
			hist = append(hist, fmt.Sprintf("c%d %s(v%d)->ok", client, name, vi))
		}
	}

	recheckLoaded := func(after string) {
		for i := range keptRaw {
			if sim.HashString(string(keptRaw[i].b)) != keptRaw[i].h {
				o.Fail("returned-raw-bytes-changed", bname0(bname), "the byte slice an earlier LoadRaw/LoadPlusRaw returned for %x changed after %s", keptRaw[i].l, after)
				keptRaw[i].h = sim.HashString(string(keptRaw[i].b))
			}
		}
		// nodes handed out by earlier loads must still hold the stored value (they are kept and re-used as Store inputs)
		for vi, n := range loaded {
			c := codecOf(vproto[vi])
			got, err := model.FromNode(n)
			if err != nil || !model.Equal(got, vals[vi].v.Canon(c.SortMode)) {
				o.Fail("loaded-node-changed", fmt.Sprintf("%s %s", bname0(bname), c.Name), "a node loaded earlier for value #%d no longer holds the stored value after %s: now %s, stored %s", vi, after, got, vals[vi].v.Canon(c.SortMode))
				delete(loaded, vi)
			}
		}
	}
	for c := 0; c < ncl; c++ {
		c := c
		s.Go(fmt.Sprintf("client%d", c), func() {
			for _, p := range plans[c] {
				s.Yield("op")
				do(c, p)
				recheckLoaded(fmt.Sprintf("operation kind %d on value #%d", p.kind, p.val))
			}
		})
	}
	s.Run()
	for _, tk := range s.Finished {
		if tk.Panic != nil {
			o.Fail("panic", bname0(bname)+" harness-task", "task %s panicked: %v\n%s", tk.Name, tk.Panic, tk.Stack)
		}
	}
	if d != nil && len(d.Escapes) > 0 {
		o.Fail("escape", "fsstore path outside base", "%v", d.Escapes)
	}
	o.Events, o.Capped, o.LogHash, o.Log = s.Seq, s.Capped, s.Log.H, s.Log.Lines
	st.Inc("runs")
	st.Inc("runs.backend." + bname0(bname))
	st.Add("events", int64(s.Seq))
	st.Add("ops", int64(total))
	if ncl > 1 {
		st.Distinct("interleaving", s.IHash)
	}
	if nontrivial {
		h := bname + fmt.Sprint(private)
		for _, x := range hist {
			h += "|" + x
		}
		for _, p := range protos {
			h += fmt.Sprintf("|%s,%d,%x,%d", p.Codec.Name, p.Version, p.MhType, p.MhLength)
		}
		st.Distinct("history", sim.HashString(h))
		if len(hist) > 24 {
			hist = hist[:24]
		}
		var ps []string
		for _, p := range protos {
			ps = append(ps, fmt.Sprintf("%s v%d mh=0x%x len=%d", p.Codec.Name, p.Version, p.MhType, p.MhLength))
		}
		st.Sample(map[string]interface{}{"backend": bname, "private_registry": private, "prototypes": ps, "history": hist})
	}
	return o
}

func tailOf(s string) string {
	if len(s) > 6 {
		return s[len(s)-6:]
	}
	return s
}

func bname0(b string) string {
	for i := 0; i < len(b); i++ {
		if b[i] == '(' || b[i] == '+' {
			return b[:i]
		}
	}
	return b
}

func (S05) Unit(u *scen.Unit) { u.Exec(nil) }
