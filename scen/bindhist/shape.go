package bindhist

// Independent description of what the schema says each vocabulary type looks
// like, written by hand from schemaSrc (NOT obtained from the library's schema
// parser or bindnode): from a Go value and its shape, expectV computes the
// abstract value the type-level view and the representation view must expose.
// Absent optional fields are left out of both (readView leaves out entries
// whose value reports IsAbsent), so "absent exposed as null" is a mismatch.

import (
	"fmt"
	"reflect"
	"strings"

	cid "github.com/ipfs/go-cid"
	"github.com/ipld/go-ipld-prime/datamodel"
	cidlink "github.com/ipld/go-ipld-prime/linking/cid"

	"verif/model"
)

type shape struct {
	kind    string // string int bool float bytes link any struct list map union enum
	repr    string // struct: map tuple stringjoin listpairs; union: keyed kinded stringprefix; enum: string int
	join    string
	fields  []fld
	elem    *shape
	elemNul bool
	members []member
	enum    map[string]interface{}         // member name -> representation (string or int64)
	conv    func(v reflect.Value) *model.V // a Go type bound through a custom converter: what it stands for
}
type fld struct {
	name, rename       string
	optional, nullable bool
	sh                 *shape
}
type member struct {
	goField, typeName, disc string
	sh                      *shape
}

var (
	shStr   = &shape{kind: "string"}
	shInt   = &shape{kind: "int"}
	shBool  = &shape{kind: "bool"}
	shFloat = &shape{kind: "float"}
	shBytes = &shape{kind: "bytes"}
	shLink  = &shape{kind: "link"}
	shAny   = &shape{kind: "any"}
)

func stc(repr string, fs ...fld) *shape { return &shape{kind: "struct", repr: repr, fields: fs} }
func fd(name string, sh *shape) fld     { return fld{name: name, sh: sh} }
func fo(name string, sh *shape) fld     { return fld{name: name, sh: sh, optional: true} }
func fn(name string, sh *shape) fld     { return fld{name: name, sh: sh, nullable: true} }
func (f fld) as(r string) fld           { f.rename = r; return f }
func lst(elem *shape, nullable bool) *shape {
	return &shape{kind: "list", elem: elem, elemNul: nullable}
}
func mpo(val *shape) *shape                { return &shape{kind: "map", elem: val} }
func uni(repr string, ms ...member) *shape { return &shape{kind: "union", repr: repr, members: ms} }

var (
	shSimple  = stc("map", fd("S", shStr), fd("I", shInt), fd("B", shBool), fd("F", shFloat), fd("Y", shBytes))
	shUKeyed  = uni("keyed", member{"Str", "String", "str", shStr}, member{"Num", "Int", "num", shInt})
	shUKinded = uni("kinded", member{"Str", "String", "", shStr}, member{"Num", "Int", "", shInt})
	shUPrefix = uni("stringprefix", member{"A", "StrA", "a:", shStr}, member{"B", "StrB", "b:", shStr})
	shUK2     = uni("kinded",
		member{"T", "Tuple", "", stc("tuple", fd("X", shInt), fd("Y", shInt))},
		member{"J", "Joined", "", &shape{kind: "struct", repr: "stringjoin", join: ":", fields: []fld{fd("A", shStr), fd("B", shStr)}}},
		member{"N", "Int", "", shInt})
	shUKM = uni("kinded",
		member{"S", "OptS", "", stc("map", fo("A", shStr), fd("C", shStr))},
		member{"T", "OptT", "", stc("tuple", fd("X", shInt), fo("Y", shInt))},
		member{"N", "Int", "", shInt})
	shUKMAlt = uni("kinded",
		member{"N", "Int", "", shInt},
		member{"S", "String", "", shStr})
	shMood  = &shape{kind: "enum", repr: "string", enum: map[string]interface{}{"Happy": "happy", "Sad": "sad"}}
	shLevel = &shape{kind: "enum", repr: "int", enum: map[string]interface{}{"Low": int64(1), "High": int64(2)}}
	fiveOpt = []fld{fo("A", shInt), fo("B", shInt), fo("C", shInt), fo("D", shInt), fo("E", shInt)}
)

var (
	shCelsius = &shape{kind: "int", conv: func(v reflect.Value) *model.V { return model.IntV(v.FieldByName("Milli").Int()) }}
	shTag     = &shape{kind: "string", conv: func(v reflect.Value) *model.V {
		var parts []string
		for i, p := 0, v.FieldByName("Parts"); i < p.Len(); i++ {
			parts = append(parts, p.Index(i).String())
		}
		return model.StringV(strings.Join(parts, "/"))
	}}
	shBlob = &shape{kind: "bytes", conv: func(v reflect.Value) *model.V {
		h := v.FieldByName("Hex").String()
		b := make([]byte, len(h)/2)
		for i := range b {
			fmt.Sscanf(h[2*i:2*i+2], "%02x", &b[i])
		}
		return model.BytesV(b)
	}}
)

func init() {
	var fs []fld
	for i := 0; i < 70; i++ {
		fs = append(fs, fd(fmt.Sprintf("F%02d", i), shInt))
	}
	shapes["Wide"] = stc("map", fs...)
}

var shapes = map[string]*shape{
	"Conv":     stc("map", fd("T", shCelsius), fo("OT", shCelsius), fn("NT", shCelsius), fd("G", shTag), fd("B", shBlob), fd("L", lst(shCelsius, false))),
	"Simple":   shSimple,
	"Widths":   stc("map", fd("I8", shInt), fd("I16", shInt), fd("I32", shInt), fd("I64", shInt), fd("U8", shInt), fd("U16", shInt), fd("U32", shInt), fd("U64", shInt), fd("I", shInt), fd("U", shInt)),
	"Opt":      stc("map", fo("A", shStr), fn("B", shInt), fd("C", shStr)),
	"Lists":    stc("map", fd("L", lst(shStr, false)), fd("N", lst(shInt, true))),
	"HasMap":   stc("map", fd("M", mpo(shInt))),
	"HasUnion": stc("map", fd("U", shUKeyed), fd("K", shUKinded), fd("E", shMood)),
	"Reprs": stc("map",
		fd("T", stc("tuple", fd("X", shInt), fd("Y", shInt))),
		fd("J", &shape{kind: "struct", repr: "stringjoin", join: ":", fields: []fld{fd("A", shStr), fd("B", shStr)}}),
		fd("R", stc("map", fd("Alpha", shStr).as("a"), fo("Beta", shInt).as("b")))),
	"Links":        stc("map", fd("C", shLink), fd("L", shLink), fd("A", shAny)),
	"Nested":       stc("map", fd("Inner", shSimple), fd("List", lst(shSimple, false))),
	"InferA":       stc("map", fd("Name", shStr), fd("Vals", lst(shInt, false))),
	"InferB":       stc("map", fd("Other", shStr), fd("Vals", lst(shInt, false))),
	"TwoOfAKind":   stc("map", fd("P", shSimple), fd("Q", shSimple)),
	"ManyOpt":      stc("map", fiveOpt...),
	"ManyOptPairs": stc("listpairs", fiveOpt...),
	"OptStruct":    stc("map", fo("P", shSimple), fn("N", shSimple), fd("Z", shInt)),
	"NullStructs":  stc("map", fd("L", lst(shSimple, true))),
	"HasPrefix":    stc("map", fd("U", shUPrefix), fd("V", shUPrefix), fd("Lvl", shLevel)),
	"HasMapU":      stc("map", fd("M", mpo(shUPrefix)), fd("K", mpo(shUKinded))),
	"HasMapS":      stc("map", fd("M", mpo(shSimple))),
	"Swapped":      stc("map", fd("Src", shStr).as("Dst"), fd("Dst", shStr).as("Src")),
	"Chain":        stc("map", fd("A", shStr).as("B"), fd("B", shStr).as("C"), fd("C", shStr).as("A")),
	"Clash":        stc("map", fd("A", stc("map", fd("N", shInt))), fd("B", stc("map", fd("N", shInt), fd("M", shStr)))),
	"HasMapAny":    stc("map", fd("M", mpo(shAny))),
	"HasMapN":      stc("map", fd("M", &shape{kind: "map", elem: shInt, elemNul: true}), fd("LL", lst(lst(shStr, false), false)), fn("NL", lst(shInt, false))),
	"HasMapOpt":    stc("map", fd("M", mpo(stc("map", fo("A", shStr), fd("L", lst(shInt, false)), fd("M", mpo(shInt)))))),
	"HasUKMAlt":    stc("map", fd("A", shUKMAlt), fd("B", shUKMAlt)),
	"RawOptB":      stc("map", fo("A", shBytes), fn("B", shBytes), fd("C", shBytes), fd("Z", shInt)),
	"OptColl":      stc("map", fo("L", lst(shStr, false)), fn("B", shBytes), fo("M", mpo(shInt)), fn("NL", lst(shInt, false)), fo("OB", shBytes), fd("Z", shInt)),
	"HasUKM":       stc("map", fd("A", shUKM), fd("B", shUKM), fd("C", shUKM), fd("D", shUKM)),
	"HasUK2":       stc("map", fd("A", shUK2), fd("B", shUK2), fd("C", shUK2), fd("D", shUK2)),
	"BigU":         stc("map", fd("U", shInt), fd("L", lst(shInt, false)), fd("N", lst(lst(shInt, false), false))),
	"pk1.Foo":      stc("map", fd("A", shStr), fd("N", shInt)),
	"pk2.Foo":      stc("map", fd("X", shBool), fd("L", lst(shInt, false))),
}

var (
	rCid  = reflect.TypeOf(cid.Cid{})
	rNode = reflect.TypeOf((*datamodel.Node)(nil)).Elem()
	rLink = reflect.TypeOf((*datamodel.Link)(nil)).Elem()
)

// expectV: the abstract value a view of Go value v must expose. ok=false means
// "this value is absent" (only for nil pointers the caller treats as optional).
func expectV(v reflect.Value, sh *shape, repr bool) *model.V {
	if sh.conv != nil {
		return sh.conv(v)
	}
	switch sh.kind {
	case "string":
		return model.StringV(v.String())
	case "int":
		switch v.Kind() {
		case reflect.Uint, reflect.Uint8, reflect.Uint16, reflect.Uint32, reflect.Uint64:
			return model.UintV(v.Uint())
		}
		return model.IntV(v.Int())
	case "bool":
		return model.BoolV(v.Bool())
	case "float":
		return model.FloatV(v.Float())
	case "bytes":
		return model.BytesV(append([]byte{}, v.Bytes()...))
	case "link":
		if v.Type() == rCid {
			return model.LinkV(cidlink.Link{Cid: v.Interface().(cid.Cid)}.Binary())
		}
		return model.LinkV(v.Interface().(datamodel.Link).Binary())
	case "any":
		x, err := model.FromNode(v.Interface().(datamodel.Node))
		if err != nil {
			panic("harness: Any field unreadable: " + err.Error())
		}
		return x
	case "enum":
		if !repr {
			return model.StringV(v.String())
		}
		switch r := sh.enum[v.String()].(type) {
		case string:
			return model.StringV(r)
		case int64:
			return model.IntV(r)
		}
		panic("harness: enum member " + v.String())
	case "list":
		out := model.ListV()
		for i := 0; i < v.Len(); i++ {
			out.Vals = append(out.Vals, expectPtr(v.Index(i), sh.elem, sh.elemNul, repr))
		}
		return out
	case "map":
		out := model.MapV()
		keys, vals := v.FieldByName("Keys"), v.FieldByName("Values")
		for i := 0; i < keys.Len(); i++ {
			k := keys.Index(i)
			out.Put(k.String(), expectPtr(vals.MapIndex(k), sh.elem, sh.elemNul, repr))
		}
		return out
	case "union":
		for _, m := range sh.members {
			f := v.FieldByName(m.goField)
			if f.IsNil() {
				continue
			}
			inner := expectV(f.Elem(), m.sh, repr)
			if !repr {
				return model.MapV().Put(m.typeName, inner)
			}
			switch sh.repr {
			case "keyed":
				return model.MapV().Put(m.disc, inner)
			case "kinded":
				return inner
			case "stringprefix":
				return model.StringV(m.disc + inner.S)
			}
		}
		panic("harness: union value with no member set")
	case "struct":
		type ent struct {
			k string
			v *model.V
		}
		var ents []ent
		for _, f := range sh.fields {
			fv := v.FieldByName(f.name)
			if (f.optional || f.nullable) && fv.IsNil() {
				if f.optional {
					continue
				}
				k := f.name
				if repr && f.rename != "" {
					k = f.rename
				}
				ents = append(ents, ent{k, model.NullV()})
				continue
			}
			if (f.optional || f.nullable) && fv.Kind() == reflect.Ptr {
				fv = fv.Elem()
			}
			k := f.name
			if repr && f.rename != "" {
				k = f.rename
			}
			ents = append(ents, ent{k, expectV(fv, f.sh, repr)})
		}
		if !repr || sh.repr == "map" {
			out := model.MapV()
			for _, e := range ents {
				out.Put(e.k, e.v)
			}
			return out
		}
		switch sh.repr {
		case "tuple":
			out := model.ListV()
			for _, e := range ents {
				out.Vals = append(out.Vals, e.v)
			}
			return out
		case "listpairs":
			out := model.ListV()
			for _, e := range ents {
				out.Vals = append(out.Vals, model.ListV(model.StringV(e.k), e.v))
			}
			return out
		case "stringjoin":
			var parts []string
			for _, e := range ents {
				parts = append(parts, e.v.S)
			}
			return model.StringV(strings.Join(parts, sh.join))
		}
	}
	panic("harness: shape " + sh.kind + "/" + sh.repr)
}

func expectPtr(v reflect.Value, sh *shape, nullable, repr bool) *model.V {
	if nullable {
		if v.IsNil() {
			return model.NullV()
		}
		v = v.Elem()
	}
	return expectV(v, sh, repr)
}

// readView reads a node like model.FromNode, except that map entries whose
// value reports IsAbsent are left out and list iterator indexes are not judged
// (FromNode judges those; the listpairs index defect is a recorded finding).
func readView(n datamodel.Node) (*model.V, error) {
	if n == nil {
		return nil, fmt.Errorf("nil node")
	}
	switch n.Kind() {
	case datamodel.Kind_List:
		v := model.ListV()
		it := n.ListIterator()
		if it == nil {
			return nil, fmt.Errorf("nil list iterator")
		}
		for !it.Done() {
			_, x, err := it.Next()
			if err != nil {
				return nil, err
			}
			xv, err := readView(x)
			if err != nil {
				return nil, err
			}
			v.Vals = append(v.Vals, xv)
		}
		// positional lookups must agree with the iterator
		if int64(len(v.Vals)) != n.Length() {
			return nil, fmt.Errorf("list Length()=%d but iterator yields %d", n.Length(), len(v.Vals))
		}
		for i := range v.Vals {
			x, err := n.LookupByIndex(int64(i))
			if err != nil {
				return nil, fmt.Errorf("LookupByIndex(%d): %v", i, err)
			}
			xv, err := readView(x)
			if err != nil {
				return nil, err
			}
			if !model.Equal(xv, v.Vals[i]) {
				return nil, fmt.Errorf("LookupByIndex(%d) disagrees with the iterator", i)
			}
		}
		return v, nil
	case datamodel.Kind_Map:
		v := model.MapV()
		it := n.MapIterator()
		if it == nil {
			return nil, fmt.Errorf("nil map iterator")
		}
		for !it.Done() {
			k, x, err := it.Next()
			if err != nil {
				return nil, err
			}
			ks, err := k.AsString()
			if err != nil {
				return nil, err
			}
			if x == nil {
				return nil, fmt.Errorf("nil node at key %q", ks)
			}
			// keyed lookup must agree with the iterator
			y, lerr := n.LookupByString(ks)
			if x.IsAbsent() {
				if lerr == nil && !y.IsAbsent() {
					return nil, fmt.Errorf("LookupByString(%q) finds a value the iterator calls absent", ks)
				}
				continue
			}
			if lerr != nil {
				return nil, fmt.Errorf("LookupByString(%q): %v", ks, lerr)
			}
			xv, err := readView(x)
			if err != nil {
				return nil, err
			}
			yv, err := readView(y)
			if err != nil {
				return nil, err
			}
			if !model.Equal(xv, yv) {
				return nil, fmt.Errorf("LookupByString(%q) disagrees with the iterator", ks)
			}
			v.Put(ks, xv)
		}
		return v, nil
	}
	if n.IsAbsent() {
		return nil, fmt.Errorf("absent value outside a struct")
	}
	return model.FromNode(n)
}

// viewMatches: does node n expose exactly what (val, shape) says?
func viewMatches(n datamodel.Node, val interface{}, sh *shape, repr bool) bool {
	got, err := readView(n)
	if err != nil {
		return false
	}
	return model.Equal(got, expectV(reflect.ValueOf(val).Elem(), sh, repr))
}

func linkOf(bin string) datamodel.Link {
	_, c, err := cid.CidFromBytes([]byte(bin))
	if err != nil {
		panic(err)
	}
	return cidlink.Link{Cid: c}
}
