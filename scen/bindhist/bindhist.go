package bindhist

import (
	"encoding/json"
	"fmt"
	"os"
	"os/exec"
	"path/filepath"
	"strings"
	"sync"
	"sync/atomic"
	"time"

	"verif/scen"
	"verif/sim"
)

type S struct{}

func (S) ID() string    { return "C19" }
func (S) Level() string { return "exploration" }

func (S) Info() scen.Info {
	return scen.Info{
		Rule: "unit = one history = one fresh child process executing 8-50 seeded operations (Prototype+build at type and representation level+Unwrap, Wrap+read of both views, Marshal+Unmarshal with dag-cbor / dag-json) over a vocabulary of 22 Go types (incl. optional / nullable struct pointers, lists of nullable structs, a stringprefix union, an int-represented enum, an ordered map of structs, structs whose fields are renamed to each other's names, structs of five optional fields in all 32 presence patterns, map and listpairs representation) (scalars, all integer widths and unsigned, optional / nullable pointers, slices incl. nullable elements, ordered-map struct, keyed and kinded unions, enum, tuple / stringjoin / renamed struct representations, cid / link / node fields, nested structs, types sharing an inferred list name, a struct holding one struct type twice, two packages declaring the same type name), explicit and inferred schemas mixed. Each operation's outcome (panic? error? encoded bytes, abstract values of both views, round-trip equality) must equal the outcome of the same operation run first and alone in another fresh process. " +
			"distinct_nontrivial counts distinct hash(operation sequence) over histories in which some operation repeats an earlier (type, schema mode) or follows an inferred binding of a type sharing a name or list shape. Later additions: 33 types (a struct of 70 fields, a kinded union whose map and list members have absent optional fields, fields bound through custom Int / String / Bytes converters, optional and nullable collection or bytes fields that are present but empty, a stringjoin struct ending in an empty field, unsigned values above the int64 range, two same-named Go types in one struct, Any-valued and nullable-valued ordered maps, lists of lists, a nullable list), prototypes whose Go type is inferred from the schema, integers outside the range of the Go field, both views judged against hand-written expected content per type, nodes of earlier Wraps re-read after every operation.",
		DistinctSet: "history",
		Assumptions: []string{
			"the reference is the same code in a fresh process (refinement against a reference execution); bindnode itself is not modelled",
			"fidelity clauses are checked on every operation for the fixed vocabulary only: both views of a wrapped value (iterators and keyed/positional lookups, absent vs null) against expected content computed from the Go value by a hand-written description of each schema type (shape.go, independent of the library's schema parser and of bindnode); Unwrap of nodes assembled from that expected content at type and representation level; Marshal/Unmarshal round trips",
			"a refusal to infer a schema (pointers, maps, unions) that is identical in the fresh-process reference is not a violation; such types are bound with explicit schemas only",
			"ordered-map key order is normalised before Go values are compared (key-sorting codecs canonicalise it)",
		},
		Components: map[string]string{
			"node/bindnode, schema, schema/dsl+dmt (LoadSchemaBytes), codecHelpers (Marshal/Unmarshal), codec/dagcbor, codec/dagjson": "real, one OS process per history and per reference operation",
			"scheduler / faults": "none needed: the deciding dimension is the history inside one process",
		},
		QuickUnits: 4000, ThoroughUnits: 300000, QuickSecs: 240, ThoroughSecs: 1200,
		ProbeKeys:    []string{"probe.repeat_same_type_inferred", "probe.repeat_same_type_explicit", "probe.shared_list_name_inferred", "probe.same_name_two_packages_inferred", "probe.explicit_after_inferred", "probe.fidelity_checked"},
		EventsKey:    "events",
		ShrinkBudget: 120,
	}
}

var childN int64

func runChild(ops []Op) ([]string, error) {
	exe, err := os.Executable()
	if err != nil {
		return nil, err
	}
	dir := filepath.Join("/dev/shm", fmt.Sprintf("verif-c19-%d-%d", os.Getpid(), atomic.AddInt64(&childN, 1)))
	if err := os.MkdirAll(dir, 0777); err != nil {
		dir = filepath.Join(os.TempDir(), filepath.Base(dir))
		os.MkdirAll(dir, 0777)
	}
	defer os.RemoveAll(dir)
	js, _ := json.Marshal(ops)
	in, out := filepath.Join(dir, "in.json"), filepath.Join(dir, "out.json")
	os.WriteFile(in, js, 0666)
	cmd := exec.Command(exe, "--c19child", in, out)
	done := make(chan error, 1)
	var outb []byte
	go func() { var e error; outb, e = cmd.CombinedOutput(); done <- e }()
	select {
	case err := <-done:
		if err != nil {
			return nil, fmt.Errorf("child failed: %v: %s", err, outb)
		}
	case <-time.After(60 * time.Second):
		if cmd.Process != nil {
			cmd.Process.Kill()
		}
		return nil, fmt.Errorf("child timed out")
	}
	raw, err := os.ReadFile(out)
	if err != nil {
		return nil, err
	}
	var res []string
	if err := json.Unmarshal(raw, &res); err != nil {
		return nil, err
	}
	return res, nil
}

// ChildMain executes the operations of in.json in order and writes their outcomes.
func ChildMain(args []string) int {
	if len(args) < 2 {
		return 2
	}
	raw, err := os.ReadFile(args[0])
	if err != nil {
		return 2
	}
	var ops []Op
	if json.Unmarshal(raw, &ops) != nil {
		return 2
	}
	res := make([]string, len(ops))
	for i, o := range ops {
		res[i] = Exec(o)
	}
	js, _ := json.Marshal(res)
	if os.WriteFile(args[1], js, 0666) != nil {
		return 2
	}
	return 0
}

var (
	refMu sync.Mutex
	refs  = map[Op]string{}
)

// reference returns the outcome of op executed first and alone in a fresh process.
func reference(op Op) string {
	refMu.Lock()
	defer refMu.Unlock()
	if r, ok := refs[op]; ok {
		return r
	}
	out, err := runChild([]Op{op})
	if err != nil || len(out) != 1 {
		panic(fmt.Sprintf("reference run failed: %v", err))
	}
	refs[op] = out[0]
	return out[0]
}

func (S) RunTape(t *sim.Tape, st *sim.Stats, keepLog bool) *sim.Outcome {
	o := &sim.Outcome{}
	log := sim.NewLog()
	log.Keep = keepLog
	var ops []Op
	gen1 := func() Op {
		ti := t.Choice(len(vocab), "op.type")
		op := Op{Kind: []int{0, 1, 2, 0, 1, 2, 3}[t.Choice(7, "op.kind")], Type: ti, Val: t.Choice(32, "op.val"), Json: t.Bool("op.json")}
		if vocab[ti].name == "Widths" && t.Pct(40, "op.outofrange") {
			op.Kind = 4
		}
		if vocab[ti].cborOnly {
			op.Json = false
			if op.Kind == 3 {
				op.Kind = 1 // the Go type inferred for Int is int64: these values are outside its range
			}
		}
		if len(vocab[ti].opts) > 0 && op.Kind == 3 {
			op.Kind = 0 // converters belong to the caller's Go types: an inferred Go type has none
		}
		if vocab[ti].inferable && op.Kind < 3 {
			op.Inferred = t.Bool("op.inferred")
		}
		return op
	}
	for len(ops) < 8 {
		ops = append(ops, gen1())
	}
	for len(ops) < 50 && t.Begin("op", 85) {
		ops = append(ops, gen1())
		t.End()
	}
	got, err := runChild(ops)
	if err != nil || len(got) != len(ops) {
		panic(fmt.Sprintf("history child failed: %v", err))
	}
	type key struct {
		t   int
		inf bool
	}
	seen := map[key]bool{}
	listInferred, fooInferred, anyInferred := false, false, false
	nontrivial := false
	for i, op := range ops {
		ref := reference(op)
		log.Add(fmt.Sprintf("OP %d %s -> %s", i, op, trunc(got[i])))
		k := key{op.Type, op.Inferred}
		if seen[k] {
			nontrivial = true
			if op.Inferred {
				st.Inc("probe.repeat_same_type_inferred")
			} else {
				st.Inc("probe.repeat_same_type_explicit")
			}
		}
		seen[k] = true
		name := vocab[op.Type].name
		if op.Inferred {
			if name == "InferA" || name == "InferB" || name == "pk2.Foo" {
				if listInferred {
					st.Inc("probe.shared_list_name_inferred")
					nontrivial = true
				}
				listInferred = true
			}
			if strings.HasSuffix(name, ".Foo") {
				if fooInferred {
					st.Inc("probe.same_name_two_packages_inferred")
					nontrivial = true
				}
				fooInferred = true
			}
			anyInferred = true
		} else if anyInferred {
			st.Inc("probe.explicit_after_inferred")
		}
		mode := "explicit"
		if op.Inferred {
			mode = "inferred"
		}
		if got[i] != ref {
			o.Fail("history-dependent-outcome", opKinds[op.Kind]+" "+mode+" schema", "operation #%d %s gives\n  %s\nafter the %d operations before it in this process, but run first in a fresh process it gives\n  %s", i, op, trunc(got[i]), i, trunc(ref))
		}
		// sampled fidelity clauses (from the fresh-process outcome, so history plays no part)
		if idx := strings.Index(ref, " FID:"); idx >= 0 {
			o.Fail("fidelity", name+" "+strings.TrimSpace(ref[idx:]), "%s (fresh process): %s", op, ref)
		} else if !strings.HasPrefix(ref, "PANIC") && !strings.HasPrefix(ref, "ERR") {
			st.Inc("probe.fidelity_checked")
		}
		if vocab[op.Type].mayRefuseInferred && op.Inferred && strings.HasPrefix(ref, "PANIC") {
			// an inferred schema cannot describe this type; refusing is a legal answer
			st.Inc("probe.inference_refused_name_clash")
		} else if strings.HasPrefix(ref, "PANIC") || strings.Contains(ref, "ERR:") || strings.Contains(ref, "unreadable:") {
			// every (type, schema mode) in the vocabulary is a supported shape with a valid value:
			// a refusal, or a view that cannot be read consistently, is a fidelity failure
			o.Fail("fidelity", name+" "+reasonClass(ref), "%s (fresh process): %s", op, trunc(ref))
			st.Inc("ref_outcome_is_refusal")
			if len(st.Notes) < 12 {
				st.Notes["refusal: "+op.String()] = trunc(ref)
			}
		}
	}
	o.LogHash, o.Log, o.Events = log.H, log.Lines, uint64(len(ops))
	st.Inc("runs")
	st.Add("events", int64(len(ops)))
	if nontrivial {
		var sb strings.Builder
		for _, op := range ops {
			sb.WriteString(op.String() + ";")
		}
		st.Distinct("history", sim.HashString(sb.String()))
		var hs []string
		for i, op := range ops {
			if i < 16 {
				hs = append(hs, op.String())
			}
		}
		st.Sample(map[string]interface{}{"operations": len(ops), "history_prefix": hs})
	}
	return o
}

// reasonClass names why a supported shape was refused or unreadable (coarse, for signatures).
func reasonClass(ref string) string {
	switch {
	case strings.Contains(ref, `"AssignInt" called on a Float node`):
		return "dagjson-whole-float-does-not-unmarshal"
	case strings.Contains(ref, "list iterator index"):
		return "listpairs-iterator-index"
	case strings.HasPrefix(ref, "PANIC"):
		return "panic"
	case strings.Contains(ref, "unreadable:"):
		return "view-unreadable"
	case strings.Contains(ref, "ERR:marshal"):
		return "marshal-refused"
	case strings.Contains(ref, "ERR:unmarshal"):
		return "unmarshal-refused"
	}
	return "build-refused"
}

// Demos: fixed demonstrations of the recorded C19 findings.
func (S) Demos() map[string]func() *sim.Violation {
	find := func(name string) int {
		for i, v := range vocab {
			if v.name == name {
				return i
			}
		}
		panic("no type " + name)
	}
	return map[string]func() *sim.Violation{
		"dagjson-whole-float": func() *sim.Violation {
			// Simple value #1 is fine (1e300); Nested value #0 holds F=0, a whole number
			op := Op{Kind: 2, Type: find("Nested"), Val: 0, Json: true}
			if ref := reference(op); strings.Contains(ref, "ERR:") {
				return &sim.Violation{Rule: "fidelity", Sig: "Nested " + reasonClass(ref), Msg: op.String() + ": " + ref}
			}
			return nil
		},
		"listpairs-iterator-index": func() *sim.Violation {
			op := Op{Kind: 1, Type: find("ManyOptPairs"), Val: 18} // pattern: B and E present, A absent in front
			if ref := reference(op); strings.Contains(ref, "unreadable:") {
				return &sim.Violation{Rule: "fidelity", Sig: "ManyOptPairs " + reasonClass(ref), Msg: op.String() + ": " + ref}
			}
			return nil
		},
	}
}

func trunc(s string) string {
	if len(s) > 300 {
		return s[:300] + "…"
	}
	return s
}

func (S) Unit(u *scen.Unit) { u.Exec(nil) }
