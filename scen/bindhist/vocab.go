// Package bindhist decides C19 (its history clause; fidelity clauses are
// sampled): binding Go values is a pure function of its inputs.
//
// One process = one history. A history of Prototype / Wrap / Unwrap / build /
// Marshal / Unmarshal operations over a fixed vocabulary of Go types, with
// explicit and inferred schemas mixed, runs in a fresh child process; every
// operation's observable outcome must equal the outcome of the SAME operation
// executed first and alone in another fresh process (refinement against a
// reference execution; no model of bindnode is involved).
package bindhist

import (
	"bytes"
	"encoding/hex"
	"fmt"
	"math"
	"reflect"
	"sort"
	"strings"

	cid "github.com/ipfs/go-cid"
	ipld "github.com/ipld/go-ipld-prime"
	"github.com/ipld/go-ipld-prime/codec"
	"github.com/ipld/go-ipld-prime/codec/dagcbor"
	"github.com/ipld/go-ipld-prime/codec/dagjson"
	"github.com/ipld/go-ipld-prime/datamodel"
	cidlink "github.com/ipld/go-ipld-prime/linking/cid"
	"github.com/ipld/go-ipld-prime/node/basicnode"
	"github.com/ipld/go-ipld-prime/node/bindnode"
	"github.com/ipld/go-ipld-prime/schema"

	"verif/model"
	"verif/scen/bindhist/pk1"
	"verif/scen/bindhist/pk2"
	"verif/sim"
)

type Simple struct {
	S string
	I int64
	B bool
	F float64
	Y []byte
}
type Widths struct {
	I8  int8
	I16 int16
	I32 int32
	I64 int64
	U8  uint8
	U16 uint16
	U32 uint32
	U64 uint64
	I   int
	U   uint
}
type Opt struct {
	A *string
	B *int64
	C string
}
type Lists struct {
	L []string
	N []*int64
}
type OMap struct {
	Keys   []string
	Values map[string]int64
}
type HasMap struct {
	M OMap
}
type UKeyed struct {
	Str *string
	Num *int64
}
type HasUnion struct {
	U UKeyed
	K UKinded
	E string
}
type UKinded struct {
	Str *string
	Num *int64
}
type Tuple struct{ X, Y int64 }
type Joined struct{ A, B string }
type Reprs struct {
	T Tuple
	J Joined
	R Renamed
}
type Renamed struct {
	Alpha string
	Beta  *int64
}
type Links struct {
	C cid.Cid
	L datamodel.Link
	A datamodel.Node
}
type Nested struct {
	Inner Simple
	List  []Simple
}
type InferA struct {
	Name string
	Vals []int64
}
type InferB struct {
	Other string
	Vals  []int64
}
type TwoOfAKind struct {
	P Simple
	Q Simple
}

type OptStruct struct {
	P *Simple
	N *Simple
	Z int64
}
type NullStructs struct {
	L []*Simple
}
type UPrefix struct {
	A *string
	B *string
}
type HasPrefix struct {
	U   UPrefix
	V   UPrefix
	Lvl string
}
type MapU struct {
	Keys   []string
	Values map[string]UPrefix
}
type HasMapU struct {
	M MapU
	K MapK
}
type MapK struct {
	Keys   []string
	Values map[string]UKinded
}
type MapS struct {
	Keys   []string
	Values map[string]Simple
}
type HasMapS struct {
	M MapS
}

// Swapped / Chain rename fields to names that other fields of the same struct carry.
type Swapped struct {
	Src string
	Dst string
}
type Chain struct {
	A string
	B string
	C string
}

// ManyOpt has five optional fields; its values cover all 32 presence patterns
// (absent fields in front of, between and behind present ones).
type ManyOpt struct {
	A, B, C, D, E *int64
}
type ManyOptPairs struct {
	A, B, C, D, E *int64
}

// Clash holds two DIFFERENT Go types that share the short name "Item". An inferred schema names
// types by their short name, so it cannot describe both: inference may refuse (panic), it must
// not bind one of them to the other's description.
type Clash struct {
	A pk1.Item
	B pk2.Item
}

// MapAnyT is an ordered map whose values are Any: scalars, lists and maps.
type MapAnyT struct {
	Keys   []string
	Values map[string]datamodel.Node
}
type HasMapAny struct {
	M MapAnyT
}

// MapNT is an ordered map with nullable values; HasMapN also holds a list of lists and a nullable list field.
type MapNT struct {
	Keys   []string
	Values map[string]*int64
}
type HasMapN struct {
	M  MapNT
	LL [][]string
	NL *[]int64
}

// MapOptT is an ordered map whose values are structs with an optional field, a list and a nested map:
// entries differ in which of them they fill.
type OptV struct {
	A *string
	L []int64
	M OMap
}
type MapOptT struct {
	Keys   []string
	Values map[string]OptV
}
type HasMapOpt struct {
	M MapOptT
}

// OptColl: optional and nullable fields holding collections or bytes -- a present but empty value
// is not a missing one.
type OptColl struct {
	L  *[]string
	B  *[]byte
	M  *OMap
	NL *[]int64
	OB *[]byte
	Z  int64
}

// RawOptB: optional and nullable Bytes fields bound to a plain []byte (a slice is nilable, so bindnode
// asks for no pointer): nil stands for absent / null, an empty non-nil slice is a present empty value.
type RawOptB struct {
	A []byte
	B []byte
	C []byte
	Z int64
}

// Conv: fields of Go types the schema knows as Int, String and Bytes through custom converters
// (bindnode.Typed*Converter options given to every binding call).
type Celsius struct{ Milli int64 }
type Tag struct{ Parts []string }
type Blob struct{ Hex string }
type Conv struct {
	T  Celsius
	OT *Celsius
	NT *Celsius
	G  Tag
	B  Blob
	L  []Celsius
}

var convOpts = []bindnode.Option{
	bindnode.TypedIntConverter(&Celsius{}, func(i int64) (interface{}, error) { return &Celsius{Milli: i}, nil },
		func(v interface{}) (int64, error) { return v.(*Celsius).Milli, nil }),
	bindnode.TypedStringConverter(&Tag{}, func(s string) (interface{}, error) { return &Tag{Parts: strings.Split(s, "/")}, nil },
		func(v interface{}) (string, error) { return strings.Join(v.(*Tag).Parts, "/"), nil }),
	bindnode.TypedBytesConverter(&Blob{}, func(b []byte) (interface{}, error) { return &Blob{Hex: hex.EncodeToString(b)}, nil },
		func(v interface{}) ([]byte, error) { return hex.DecodeString(v.(*Blob).Hex) }),
}

// UKM is a kinded union whose map and list members are structs with optional fields: what the
// representation says about its size must be what it iterates.
type OptS struct {
	A *string
	C string
}
type OptT struct {
	X int64
	Y *int64
}
type UKM struct {
	S *OptS
	T *OptT
	N *int64
}

// UKMAlt / HasUKMAlt live in a SECOND explicit type system (altSchemaSrc) in which a kinded union
// of the same NAME as UKM has other members in other positions: what a binding learns about one
// type system's "UKM" must not leak into the other's.
type UKMAlt struct {
	N *int64
	S *string
}
type HasUKMAlt struct {
	A UKMAlt
	B UKMAlt
}
type HasUKM struct {
	A UKM
	B UKM
	C UKM
	D UKM
}

// Wide is a struct of 70 fields (more than a machine word has bits): its Go type is made with
// reflect.StructOf, its schema text and shape are generated alongside.
var wideT = func() reflect.Type {
	var fs []reflect.StructField
	for i := 0; i < 70; i++ {
		fs = append(fs, reflect.StructField{Name: fmt.Sprintf("F%02d", i), Type: reflect.TypeOf(int64(0))})
	}
	return reflect.StructOf(fs)
}()

func wideSchema() string {
	out := "type Wide struct {"
	for i := 0; i < 70; i++ {
		out += fmt.Sprintf(" F%02d Int ", i)
	}
	return out + "}\n"
}

func wideVal(mul int64) interface{} {
	v := reflect.New(wideT)
	for i := 0; i < 70; i++ {
		v.Elem().Field(i).SetInt(mul * int64(i+1))
	}
	return v.Interface()
}

// UK2 is a kinded union whose members include structs that are not maps in representation.
type UK2 struct {
	T *Tuple
	J *Joined
	N *int64
}
type HasUK2 struct {
	A UK2
	B UK2
	C UK2
	D UK2
}

// BigU holds unsigned values above the int64 range, alone and in (nested) slices.
type BigU struct {
	U uint64
	L []uint64
	N [][]uint64
}

const schemaSrc = `
type Simple struct { S String  I Int  B Bool  F Float  Y Bytes }
type Widths struct { I8 Int I16 Int I32 Int I64 Int U8 Int U16 Int U32 Int U64 Int I Int U Int }
type Opt struct { A optional String  B nullable Int  C String }
type NullableInts [nullable Int]
type Lists struct { L [String]  N NullableInts }
type OMap {String:Int}
type HasMap struct { M OMap }
type UKeyed union { | String "str" | Int "num" } representation keyed
type UKinded union { | String string | Int int } representation kinded
type Mood enum { | Happy ("happy") | Sad ("sad") }
type HasUnion struct { U UKeyed  K UKinded  E Mood }
type Tuple struct { X Int  Y Int } representation tuple
type Joined struct { A String  B String } representation stringjoin { join ":" }
type Renamed struct { Alpha String (rename "a")  Beta optional Int (rename "b") }
type Reprs struct { T Tuple  J Joined  R Renamed }
type Links struct { C Link  L Link  A Any }
type Nested struct { Inner Simple  List [Simple] }
type InferA struct { Name String  Vals [Int] }
type InferB struct { Other String  Vals [Int] }
type TwoOfAKind struct { P Simple  Q Simple }
type ManyOpt struct { A optional Int  B optional Int  C optional Int  D optional Int  E optional Int }
type ManyOptPairs struct { A optional Int  B optional Int  C optional Int  D optional Int  E optional Int } representation listpairs
type OptStruct struct { P optional Simple  N nullable Simple  Z Int }
type NullableSimples [nullable Simple]
type NullStructs struct { L NullableSimples }
type StrA string
type StrB string
type UPrefix union { | StrA "a:" | StrB "b:" } representation stringprefix
type Level enum { | Low ("1") | High ("2") } representation int
type HasPrefix struct { U UPrefix  V UPrefix  Lvl Level }
type MapU {String:UPrefix}
type MapK {String:UKinded}
type HasMapU struct { M MapU  K MapK }
type MapS {String:Simple}
type HasMapS struct { M MapS }
type Swapped struct { Src String (rename "Dst")  Dst String (rename "Src") }
type Chain struct { A String (rename "B")  B String (rename "C")  C String (rename "A") }
type Item1 struct { N Int }
type Item2 struct { N Int  M String }
type Clash struct { A Item1  B Item2 }
type MapAny {String:Any}
type HasMapAny struct { M MapAny }
type MapN {String:nullable Int}
type StrList [String]
type StrListList [StrList]
type IntList [Int]
type HasMapN struct { M MapN  LL StrListList  NL nullable IntList }
type OptV struct { A optional String  L [Int]  M OMap }
type MapOpt {String:OptV}
type HasMapOpt struct { M MapOpt }
type OptColl struct { L optional StrList  B nullable Bytes  M optional OMap  NL nullable IntList  OB optional Bytes  Z Int }
type RawOptB struct { A optional Bytes  B nullable Bytes  C Bytes  Z Int }
type Conv struct { T Int  OT optional Int  NT nullable Int  G String  B Bytes  L [Int] }
type OptS struct { A optional String  C String }
type OptT struct { X Int  Y optional Int } representation tuple
type UKM union { | OptS map | OptT list | Int int } representation kinded
type HasUKM struct { A UKM  B UKM  C UKM  D UKM }
type UK2 union { | Tuple list | Joined string | Int int } representation kinded
type HasUK2 struct { A UK2  B UK2  C UK2  D UK2 }
type UList [Int]
type UListList [UList]
type BigU struct { U Int  L UList  N UListList }
type Foo1 struct { A String  N Int }
type Foo2 struct { X Bool  L [Int] }
`

func sp(s string) *string { return &s }
func ip(i int64) *int64   { return &i }

var someCid = func() cid.Cid {
	c, err := cid.Prefix{Version: 1, Codec: 0x71, MhType: 0x12, MhLength: -1}.Sum([]byte("bindhist"))
	if err != nil {
		panic(err)
	}
	return c
}()

type vtype struct {
	cborOnly          bool // values outside dag-json's domain in this library (integers above the int64 range)
	mayRefuseInferred bool // an inferred schema cannot describe this type: a panic is a legal answer, wrong data is not
	name              string
	schema            string // type name in the explicit schema
	alt               bool   // the explicit schema is the second type system (altSchemaSrc)
	inferable         bool
	ptr               func() interface{}           // nil pointer of the Go type, for Prototype
	vals              []func() interface{}         // fresh pointers to values
	expect            func(v interface{}) *model.V // hand-written type-level AV (nil: not sampled)
	opts              []bindnode.Option            // custom converters the binding is made with (every call gets them)
}

var vocab = []vtype{
	{name: "Simple", schema: "Simple", inferable: true, ptr: func() interface{} { return (*Simple)(nil) },
		vals: []func() interface{}{
			func() interface{} { return &Simple{S: "s", I: -7, B: true, F: 0.5, Y: []byte{1, 2}} },
			func() interface{} { return &Simple{S: "", I: math.MinInt64, F: 1e300, Y: []byte{}} },
		},
		expect: func(v interface{}) *model.V {
			x := v.(*Simple)
			return model.MapV().Put("S", model.StringV(x.S)).Put("I", model.IntV(x.I)).Put("B", model.BoolV(x.B)).Put("F", model.FloatV(x.F)).Put("Y", model.BytesV(x.Y))
		}},
	{name: "Widths", schema: "Widths", ptr: func() interface{} { return (*Widths)(nil) },
		vals: []func() interface{}{
			func() interface{} {
				return &Widths{-128, -32768, math.MinInt32, math.MinInt64, 255, 65535, math.MaxUint32, math.MaxInt64, -1, 7}
			},
			func() interface{} {
				return &Widths{127, 32767, math.MaxInt32, math.MaxInt64, 0, 1, 2, 3, math.MaxInt64, math.MaxInt64}
			},
		},
		expect: func(v interface{}) *model.V {
			x := v.(*Widths)
			return model.MapV().Put("I8", model.IntV(int64(x.I8))).Put("I16", model.IntV(int64(x.I16))).Put("I32", model.IntV(int64(x.I32))).Put("I64", model.IntV(x.I64)).
				Put("U8", model.IntV(int64(x.U8))).Put("U16", model.IntV(int64(x.U16))).Put("U32", model.IntV(int64(x.U32))).Put("U64", model.IntV(int64(x.U64))).
				Put("I", model.IntV(int64(x.I))).Put("U", model.IntV(int64(x.U)))
		}},
	{name: "Opt", schema: "Opt", ptr: func() interface{} { return (*Opt)(nil) },
		vals: []func() interface{}{
			func() interface{} { return &Opt{A: sp("a"), B: ip(3), C: "c"} },
			func() interface{} { return &Opt{A: nil, B: nil, C: ""} },
		}},
	{name: "Lists", schema: "Lists", ptr: func() interface{} { return (*Lists)(nil) },
		vals: []func() interface{}{
			func() interface{} { return &Lists{L: []string{"x", "y"}, N: []*int64{ip(1), nil, ip(-3)}} },
			func() interface{} { return &Lists{L: []string{}, N: []*int64{}} },
		}},
	{name: "HasMap", schema: "HasMap", ptr: func() interface{} { return (*HasMap)(nil) },
		vals: []func() interface{}{
			func() interface{} {
				return &HasMap{M: OMap{Keys: []string{"bb", "a", "ccc"}, Values: map[string]int64{"bb": 2, "a": 1, "ccc": 3}}}
			},
		}},
	{name: "HasUnion", schema: "HasUnion", ptr: func() interface{} { return (*HasUnion)(nil) },
		vals: []func() interface{}{
			func() interface{} { return &HasUnion{U: UKeyed{Str: sp("u")}, K: UKinded{Num: ip(9)}, E: "Happy"} },
			func() interface{} { return &HasUnion{U: UKeyed{Num: ip(-1)}, K: UKinded{Str: sp("k")}, E: "Sad"} },
		}},
	{name: "Reprs", schema: "Reprs", ptr: func() interface{} { return (*Reprs)(nil) },
		vals: []func() interface{}{
			func() interface{} {
				return &Reprs{T: Tuple{1, -2}, J: Joined{"left", "right"}, R: Renamed{Alpha: "al", Beta: ip(5)}}
			},
			func() interface{} { return &Reprs{T: Tuple{0, 0}, J: Joined{"", "x"}, R: Renamed{Alpha: ""}} },
			func() interface{} { return &Reprs{T: Tuple{-1, 1}, J: Joined{"x", ""}, R: Renamed{Alpha: "a"}} },
			func() interface{} {
				return &Reprs{T: Tuple{2, 2}, J: Joined{"", ""}, R: Renamed{Alpha: "b", Beta: ip(0)}}
			},
		}},
	{name: "Links", schema: "Links", inferable: true, ptr: func() interface{} { return (*Links)(nil) },
		vals: []func() interface{}{
			func() interface{} {
				return &Links{C: someCid, L: cidlink.Link{Cid: someCid}, A: basicnode.NewString("any")}
			},
		}},
	{name: "Nested", schema: "Nested", inferable: true, ptr: func() interface{} { return (*Nested)(nil) },
		vals: []func() interface{}{
			func() interface{} {
				return &Nested{Inner: Simple{S: "in", Y: []byte{}}, List: []Simple{{S: "l0", Y: []byte{9}}, {I: 4, Y: []byte{}}}}
			},
		}},
	{name: "InferA", schema: "InferA", inferable: true, ptr: func() interface{} { return (*InferA)(nil) },
		vals: []func() interface{}{func() interface{} { return &InferA{Name: "a", Vals: []int64{1, 2, 3}} }}},
	{name: "InferB", schema: "InferB", inferable: true, ptr: func() interface{} { return (*InferB)(nil) },
		vals: []func() interface{}{func() interface{} { return &InferB{Other: "b", Vals: []int64{}} }}},
	{name: "TwoOfAKind", schema: "TwoOfAKind", inferable: true, ptr: func() interface{} { return (*TwoOfAKind)(nil) },
		vals: []func() interface{}{func() interface{} {
			return &TwoOfAKind{P: Simple{S: "p", Y: []byte{}}, Q: Simple{S: "q", Y: []byte{1}}}
		}}},
	{name: "ManyOpt", schema: "ManyOpt", ptr: func() interface{} { return (*ManyOpt)(nil) }, vals: manyOptVals(false)},
	{name: "ManyOptPairs", schema: "ManyOptPairs", ptr: func() interface{} { return (*ManyOptPairs)(nil) }, vals: manyOptVals(true)},
	{name: "OptStruct", schema: "OptStruct", ptr: func() interface{} { return (*OptStruct)(nil) },
		vals: []func() interface{}{
			func() interface{} {
				return &OptStruct{P: &Simple{S: "p", Y: []byte{1}, F: 0.5}, N: &Simple{S: "n", Y: []byte{}, F: 0.25}, Z: 1}
			},
			func() interface{} { return &OptStruct{Z: 2} },
		}},
	{name: "NullStructs", schema: "NullStructs", ptr: func() interface{} { return (*NullStructs)(nil) },
		vals: []func() interface{}{
			func() interface{} {
				return &NullStructs{L: []*Simple{{S: "a", Y: []byte{}, F: 1.5}, nil, {I: 3, Y: []byte{7}, F: 2.5}}}
			},
			func() interface{} { return &NullStructs{L: []*Simple{}} },
		}},
	{name: "HasPrefix", schema: "HasPrefix", ptr: func() interface{} { return (*HasPrefix)(nil) },
		vals: []func() interface{}{
			func() interface{} { return &HasPrefix{U: UPrefix{A: sp("x")}, V: UPrefix{B: sp("")}, Lvl: "High"} },
			func() interface{} {
				return &HasPrefix{U: UPrefix{B: sp("a:tricky")}, V: UPrefix{A: sp("b:")}, Lvl: "Low"}
			},
			// payloads that begin with characters of their own prefix
			func() interface{} {
				return &HasPrefix{U: UPrefix{A: sp("aardvark:a")}, V: UPrefix{B: sp("b:b:bb")}, Lvl: "High"}
			},
			func() interface{} { return &HasPrefix{U: UPrefix{A: sp(":a:")}, V: UPrefix{B: sp("::")}, Lvl: "Low"} },
		}},
	{name: "HasMapU", schema: "HasMapU", ptr: func() interface{} { return (*HasMapU)(nil) },
		vals: []func() interface{}{
			func() interface{} {
				return &HasMapU{M: MapU{Keys: []string{"p", "q"}, Values: map[string]UPrefix{"p": {A: sp("one")}, "q": {B: sp("two")}}},
					K: MapK{Keys: []string{"r"}, Values: map[string]UKinded{"r": {Num: ip(3)}}}}
			},
		}},
	{name: "HasMapS", schema: "HasMapS", ptr: func() interface{} { return (*HasMapS)(nil) },
		vals: []func() interface{}{
			func() interface{} {
				return &HasMapS{M: MapS{Keys: []string{"k2", "k1"}, Values: map[string]Simple{"k2": {S: "two", Y: []byte{}, F: 0.5}, "k1": {I: 1, Y: []byte{1}, F: 1.5}}}}
			},
		}},
	{name: "Swapped", schema: "Swapped", ptr: func() interface{} { return (*Swapped)(nil) },
		vals: []func() interface{}{func() interface{} { return &Swapped{Src: "from", Dst: "to"} }}},
	{name: "Chain", schema: "Chain", ptr: func() interface{} { return (*Chain)(nil) },
		vals: []func() interface{}{func() interface{} { return &Chain{A: "1", B: "2", C: "3"} }}},
	{name: "Clash", schema: "Clash", inferable: true, mayRefuseInferred: true, ptr: func() interface{} { return (*Clash)(nil) },
		vals: []func() interface{}{func() interface{} { return &Clash{A: pk1.Item{N: 1}, B: pk2.Item{N: 2, M: "m"}} }}},
	{name: "HasMapAny", schema: "HasMapAny", ptr: func() interface{} { return (*HasMapAny)(nil) },
		vals: []func() interface{}{
			func() interface{} {
				mapNode := func() datamodel.Node {
					nb := basicnode.Prototype.Any.NewBuilder()
					model.Assemble(nb, model.MapV().Put("x", model.IntV(1)).Put("y", model.ListV(model.IntV(2), model.StringV("two"))), linkOf, nil)
					return nb.Build()
				}
				listNode := func() datamodel.Node {
					nb := basicnode.Prototype.Any.NewBuilder()
					model.Assemble(nb, model.ListV(model.BoolV(true), model.MapV().Put("in", model.NullV())), linkOf, nil)
					return nb.Build()
				}
				return &HasMapAny{M: MapAnyT{Keys: []string{"s", "m", "l", "m2"}, Values: map[string]datamodel.Node{
					"s": basicnode.NewString("scalar"), "m": mapNode(), "l": listNode(), "m2": mapNode()}}}
			},
			func() interface{} {
				return &HasMapAny{M: MapAnyT{Keys: []string{}, Values: map[string]datamodel.Node{}}}
			},
		}},
	{name: "HasMapN", schema: "HasMapN", ptr: func() interface{} { return (*HasMapN)(nil) },
		vals: []func() interface{}{
			func() interface{} {
				return &HasMapN{M: MapNT{Keys: []string{"b", "n", "a"}, Values: map[string]*int64{"b": ip(2), "n": nil, "a": ip(-1)}},
					LL: [][]string{{"x", "y"}, {}, {"z"}}, NL: &[]int64{4, 5}}
			},
			func() interface{} {
				return &HasMapN{M: MapNT{Keys: []string{}, Values: map[string]*int64{}}, LL: [][]string{}, NL: nil}
			},
		}},
	{name: "HasMapOpt", schema: "HasMapOpt", ptr: func() interface{} { return (*HasMapOpt)(nil) },
		vals: []func() interface{}{
			func() interface{} {
				return &HasMapOpt{M: MapOptT{Keys: []string{"full", "bare", "mid"}, Values: map[string]OptV{
					"full": {A: sp("present"), L: []int64{1, 2, 3}, M: OMap{Keys: []string{"k"}, Values: map[string]int64{"k": 9}}},
					"bare": {A: nil, L: []int64{}, M: OMap{Keys: []string{}, Values: map[string]int64{}}},
					"mid":  {A: nil, L: []int64{7}, M: OMap{Keys: []string{"z"}, Values: map[string]int64{"z": -1}}}}}}
			},
		}},
	{name: "Conv", schema: "Conv", opts: convOpts, ptr: func() interface{} { return (*Conv)(nil) },
		vals: []func() interface{}{
			func() interface{} {
				return &Conv{T: Celsius{21500}, OT: &Celsius{-1}, NT: &Celsius{0}, G: Tag{[]string{"a", "b", "c"}}, B: Blob{"00ff10"}, L: []Celsius{{1}, {2}, {-3}}}
			},
			func() interface{} {
				return &Conv{T: Celsius{math.MinInt64}, G: Tag{[]string{""}}, B: Blob{""}, L: []Celsius{}}
			},
		}},
	{name: "HasUKM", schema: "HasUKM", ptr: func() interface{} { return (*HasUKM)(nil) },
		vals: []func() interface{}{
			func() interface{} {
				return &HasUKM{A: UKM{S: &OptS{A: sp("a"), C: "c"}}, B: UKM{T: &OptT{X: 1, Y: ip(2)}}, C: UKM{N: ip(3)}, D: UKM{S: &OptS{A: sp(""), C: ""}}}
			},
			func() interface{} {
				return &HasUKM{A: UKM{S: &OptS{C: "only c"}}, B: UKM{T: &OptT{X: 7}}, C: UKM{N: ip(0)}, D: UKM{T: &OptT{X: 0, Y: ip(0)}}}
			},
		}},
	{name: "Wide", schema: "Wide", ptr: func() interface{} { return reflect.Zero(reflect.PtrTo(wideT)).Interface() },
		vals: []func() interface{}{
			func() interface{} { return wideVal(1) },
			func() interface{} { return wideVal(-3) },
		}},
	{name: "RawOptB", schema: "RawOptB", ptr: func() interface{} { return (*RawOptB)(nil) },
		vals: []func() interface{}{
			func() interface{} { return &RawOptB{A: []byte{}, B: []byte{}, C: []byte{}, Z: 1} },
			func() interface{} { return &RawOptB{C: []byte{}, Z: 2} },
			func() interface{} { return &RawOptB{A: []byte{0}, B: []byte{0x62}, C: []byte{1, 2}, Z: 3} },
		}},
	{name: "HasUKMAlt", schema: "HasUKMAlt", alt: true, ptr: func() interface{} { return (*HasUKMAlt)(nil) },
		vals: []func() interface{}{
			func() interface{} { return &HasUKMAlt{A: UKMAlt{N: ip(3)}, B: UKMAlt{S: sp("s")}} },
			func() interface{} { return &HasUKMAlt{A: UKMAlt{S: sp("")}, B: UKMAlt{N: ip(0)}} },
		}},
	{name: "OptColl", schema: "OptColl", ptr: func() interface{} { return (*OptColl)(nil) },
		vals: []func() interface{}{
			func() interface{} {
				return &OptColl{L: &[]string{}, B: &[]byte{}, M: &OMap{Keys: []string{}, Values: map[string]int64{}}, NL: &[]int64{}, OB: &[]byte{}, Z: 1}
			},
			func() interface{} { return &OptColl{Z: 2} },
			func() interface{} {
				return &OptColl{L: &[]string{"a", ""}, B: &[]byte{0}, M: &OMap{Keys: []string{"k"}, Values: map[string]int64{"k": 1}}, NL: &[]int64{0}, OB: &[]byte{0x6f, 0x62}, Z: 3}
			},
		}},
	{name: "HasUK2", schema: "HasUK2", ptr: func() interface{} { return (*HasUK2)(nil) },
		vals: []func() interface{}{
			func() interface{} {
				return &HasUK2{A: UK2{T: &Tuple{3, 4}}, B: UK2{J: &Joined{"l", "r"}}, C: UK2{N: ip(5)}, D: UK2{J: &Joined{"trailing-empty", ""}}}
			},
			func() interface{} {
				return &HasUK2{A: UK2{T: &Tuple{3, 4}}, B: UK2{J: &Joined{"l", "r"}}, C: UK2{N: ip(5)}, D: UK2{T: &Tuple{0, -1}}}
			},
		}},
	{name: "BigU", schema: "BigU", cborOnly: true, ptr: func() interface{} { return (*BigU)(nil) },
		vals: []func() interface{}{
			func() interface{} {
				return &BigU{U: math.MaxUint64, L: []uint64{1 << 63, 7, math.MaxUint64}, N: [][]uint64{{math.MaxUint64 - 1}, {}, {3, 1<<63 + 5}}}
			},
			func() interface{} { return &BigU{U: 1 << 63, L: []uint64{}, N: [][]uint64{}} },
		}},
	{name: "pk1.Foo", schema: "Foo1", inferable: true, ptr: func() interface{} { return (*pk1.Foo)(nil) },
		vals: []func() interface{}{func() interface{} { return &pk1.Foo{A: "a", N: 1} }}},
	{name: "pk2.Foo", schema: "Foo2", inferable: true, ptr: func() interface{} { return (*pk2.Foo)(nil) },
		vals: []func() interface{}{func() interface{} { return &pk2.Foo{X: true, L: []int64{4}} }}},
}

func manyOptVals(pairs bool) []func() interface{} {
	var out []func() interface{}
	for mask := 0; mask < 32; mask++ {
		mask := mask
		out = append(out, func() interface{} {
			f := func(bit int) *int64 {
				if mask>>uint(bit)&1 == 1 {
					return ip(int64(10*bit + 1))
				}
				return nil
			}
			if pairs {
				return &ManyOptPairs{f(0), f(1), f(2), f(3), f(4)}
			}
			return &ManyOpt{f(0), f(1), f(2), f(3), f(4)}
		})
	}
	return out
}

var explicitTS, explicitAltTS *schema.TypeSystem

const altSchemaSrc = `
type UKM union { | Int int | String string } representation kinded
type HasUKMAlt struct { A UKM  B UKM }
`

func tsAlt() *schema.TypeSystem {
	if explicitAltTS == nil {
		t, err := ipld.LoadSchemaBytes([]byte(altSchemaSrc))
		if err != nil {
			panic("harness: alternative schema does not load: " + err.Error())
		}
		explicitAltTS = t
	}
	return explicitAltTS
}

func ts() *schema.TypeSystem {
	if explicitTS == nil {
		t, err := ipld.LoadSchemaBytes([]byte(schemaSrc + wideSchema()))
		if err != nil {
			panic("harness: schema does not load: " + err.Error())
		}
		explicitTS = t
	}
	return explicitTS
}

// Op is one operation of a history.
type Op struct {
	Kind     int  `json:"k"` // 0 Prototype+build+Unwrap, 1 Wrap+read, 2 Marshal+Unmarshal
	Type     int  `json:"t"`
	Val      int  `json:"v"`
	Inferred bool `json:"i"`
	Json     bool `json:"j"`
}

var opKinds = []string{"Prototype+build+Unwrap", "Wrap+read", "Marshal+Unmarshal", "Prototype(Go type inferred from schema)+build+read", "build-with-an-integer-outside-the-Go-field's-range"}

func (o Op) String() string {
	m := "explicit"
	if o.Inferred {
		m = "inferred"
	}
	c := "dag-cbor"
	if o.Json {
		c = "dag-json"
	}
	return fmt.Sprintf("%s(%s,%s,val%d,%s)", opKinds[o.Kind], vocab[o.Type].name, m, o.Val, c)
}

func avh(n datamodel.Node) string {
	v, err := model.FromNode(n)
	if err != nil {
		return "unreadable:" + err.Error()
	}
	return fmt.Sprintf("%x", v.Hash())
}

// deepEq: do two Go values hold the same data? nil and empty slices / maps are
// the same data; ordered-map structs (Keys, Values) are compared as maps,
// because key-sorting codecs canonicalise their order; Node and Link fields are
// compared by content. Nothing is mutated.
func deepEq(a, b interface{}) bool {
	return semEq(reflect.ValueOf(a), reflect.ValueOf(b))
}

var (
	nodeType = reflect.TypeOf((*datamodel.Node)(nil)).Elem()
	linkType = reflect.TypeOf((*datamodel.Link)(nil)).Elem()
	cidType  = reflect.TypeOf(cid.Cid{})
)

func semEq(a, b reflect.Value) bool {
	if a.IsValid() != b.IsValid() {
		return false
	}
	if !a.IsValid() {
		return true
	}
	if a.Type() != b.Type() {
		return false
	}
	switch {
	case a.Type() == cidType:
		return a.Interface().(cid.Cid).Equals(b.Interface().(cid.Cid))
	case a.Type() == nodeType:
		if a.IsNil() || b.IsNil() {
			return a.IsNil() == b.IsNil()
		}
		return avh(a.Interface().(datamodel.Node)) == avh(b.Interface().(datamodel.Node))
	case a.Type() == linkType:
		if a.IsNil() || b.IsNil() {
			return a.IsNil() == b.IsNil()
		}
		return a.Interface().(datamodel.Link).Binary() == b.Interface().(datamodel.Link).Binary()
	}
	switch a.Kind() {
	case reflect.Ptr:
		if a.IsNil() || b.IsNil() {
			return a.IsNil() == b.IsNil()
		}
		return semEq(a.Elem(), b.Elem())
	case reflect.Struct:
		if k, v := a.FieldByName("Keys"), a.FieldByName("Values"); a.NumField() == 2 && k.IsValid() && v.IsValid() && v.Kind() == reflect.Map {
			ka, kb := a.FieldByName("Keys"), b.FieldByName("Keys")
			if ka.Len() != kb.Len() {
				return false
			}
			seen := map[interface{}]bool{}
			for i := 0; i < ka.Len(); i++ {
				seen[ka.Index(i).Interface()] = true
			}
			for i := 0; i < kb.Len(); i++ {
				if !seen[kb.Index(i).Interface()] {
					return false
				}
			}
			return semEq(a.FieldByName("Values"), b.FieldByName("Values"))
		}
		for i := 0; i < a.NumField(); i++ {
			if !semEq(a.Field(i), b.Field(i)) {
				return false
			}
		}
		return true
	case reflect.Slice:
		if a.Len() != b.Len() {
			return false
		}
		for i := 0; i < a.Len(); i++ {
			if !semEq(a.Index(i), b.Index(i)) {
				return false
			}
		}
		return true
	case reflect.Map:
		if a.Len() != b.Len() {
			return false
		}
		for _, k := range a.MapKeys() {
			bv := b.MapIndex(k)
			if !bv.IsValid() || !semEq(a.MapIndex(k), bv) {
				return false
			}
		}
		return true
	case reflect.Interface:
		if a.IsNil() || b.IsNil() {
			return a.IsNil() == b.IsNil()
		}
		return semEq(a.Elem(), b.Elem())
	case reflect.Float64, reflect.Float32:
		return a.Float() == b.Float()
	}
	return a.Interface() == b.Interface()
}

// retained holds the byte slices earlier Marshal calls of this process returned,
// with their hash at the time: a caller owns what Marshal hands it, so a later
// binding operation must not change them.
var retained []struct {
	b []byte
	h uint64
}

// retainedNodes holds nodes earlier Wrap calls of this process returned, with their content hash
// at the time: nothing a later binding operation does may change what they read as.
var retainedNodes []struct {
	n datamodel.Node
	h string
}

func retainedNodesIntact() bool {
	for _, r := range retainedNodes {
		ok := false
		func() {
			defer func() { recover() }()
			ok = avh(r.n)+avhRepr(r.n) == r.h
		}()
		if !ok {
			return false
		}
	}
	return true
}

func avhRepr(n datamodel.Node) string {
	if tn, ok := n.(schema.TypedNode); ok {
		return avh(tn.Representation())
	}
	return ""
}

func retainedIntact() bool {
	for _, r := range retained {
		if sim.HashString(string(r.b)) != r.h {
			return false
		}
	}
	return true
}

// Exec performs one operation and returns its observable outcome as a string.
// Fidelity observations are embedded as " FID:<what>=false" markers.
func Exec(o Op) (out string) {
	defer func() {
		if r := recover(); r != nil {
			out = fmt.Sprintf("PANIC:%v", r)
		}
	}()
	vt := vocab[o.Type]
	var st schema.Type
	if !o.Inferred {
		st = ts().TypeByName(vt.schema)
		if vt.alt {
			st = tsAlt().TypeByName(vt.schema)
		}
		if st == nil {
			return "harness: no schema type " + vt.schema
		}
	}
	val := vt.vals[o.Val%len(vt.vals)]()
	var enc codec.Encoder = dagcbor.Encode
	var dec codec.Decoder = dagcbor.Decode
	if o.Json {
		enc, dec = dagjson.Encode, dagjson.Decode
	}
	defer func() {
		if !retainedIntact() {
			out += " HIST:bytes-returned-by-an-earlier-Marshal-changed"
			retained = nil
		}
		if !retainedNodesIntact() {
			out += " HIST:node-returned-by-an-earlier-Wrap-reads-differently"
			retainedNodes = nil
		}
	}()
	switch o.Kind {
	case 0:
		proto := bindnode.Prototype(vt.ptr(), st, vt.opts...)
		src := bindnode.Wrap(val, st, vt.opts...)
		// build at type level from the wrapped value's content, then at representation level
		nb := proto.NewBuilder()
		if err := datamodel.Copy(src, nb); err != nil {
			return "ERR:type-level build: " + err.Error()
		}
		built := nb.Build()
		rb := proto.Representation().NewBuilder()
		if err := datamodel.Copy(src.Representation(), rb); err != nil {
			return "ERR:repr-level build: " + err.Error()
		}
		rbuilt := rb.Build()
		out = "type=" + avh(built) + " repr=" + avh(built.(schema.TypedNode).Representation()) + " viaRepr=" + avh(rbuilt)
		if !deepEq(bindnode.Unwrap(built), val) {
			out += " FID:unwrap-of-built=false"
		}
		if avh(rbuilt) != avh(built) {
			out += " FID:repr-build-equals-type-build=false"
		}
		// build from the hand-written expected content (independent of Wrap), at both levels
		if sh := shapes[vt.name]; sh != nil {
			for _, repr := range []bool{false, true} {
				b2 := proto.NewBuilder()
				what := "type"
				if repr {
					b2, what = proto.Representation().NewBuilder(), "representation"
				}
				if err := model.Assemble(b2, expectV(reflect.ValueOf(val).Elem(), sh, repr), linkOf, nil); err != nil {
					out += " FID:assemble-expected-" + what + "-level-content=refused"
				} else if !deepEq(bindnode.Unwrap(b2.Build()), val) {
					out += " FID:unwrap-of-assembled-" + what + "-level-content=false"
				}
			}
		}
		// A node assigned whole (AssignNode) from a node of the same binding holds its own data: changing the
		// SOURCE's Go value in place afterwards (through a slice element, a map entry, a pointed-to field) must
		// not show in what was built. val is this operation's own value; it is not used again.
		for _, repr := range []bool{false, true} {
			b3 := proto.NewBuilder()
			var from datamodel.Node = src
			what := "type"
			if repr {
				b3, from, what = proto.Representation().NewBuilder(), src.Representation(), "representation"
			}
			if err := b3.AssignNode(from); err != nil {
				continue
			}
			built3 := b3.Build().(schema.TypedNode)
			before := avh(built3) + avh(built3.Representation())
			if strings.Contains(before, "unreadable:") {
				continue
			}
			fresh := vt.vals[o.Val%len(vt.vals)]() // the source of this round: wrapped, assigned from, then changed
			b4 := proto.NewBuilder()
			from = bindnode.Wrap(fresh, st, vt.opts...)
			if repr {
				b4, from = proto.Representation().NewBuilder(), from.(schema.TypedNode).Representation()
			}
			if err := b4.AssignNode(from); err != nil {
				continue
			}
			built4 := b4.Build().(schema.TypedNode)
			h4 := avh(built4) + avh(built4.Representation())
			if mutateShared(reflect.ValueOf(fresh).Elem()) && avh(built4)+avh(built4.Representation()) != h4 {
				out += " FID:node-built-by-" + what + "-level-AssignNode-changes-with-its-source's-Go-value=false"
			}
		}
		return out
	case 1:
		n := bindnode.Wrap(val, st, vt.opts...)
		out = "type=" + avh(n) + " repr=" + avh(n.Representation())
		if vt.expect != nil {
			if got, err := model.FromNode(n); err != nil || !model.Equal(got, vt.expect(val)) {
				out += " FID:wrap-exposes-value=false"
			}
		}
		if sh := shapes[vt.name]; sh != nil {
			if !viewMatches(n, val, sh, false) && !strings.Contains(out, "FID:wrap-exposes-value") {
				out += " FID:wrap-exposes-value=false"
			}
			if !strings.Contains(out, "unreadable:") && !viewMatches(n.Representation(), val, sh, true) {
				out += " FID:wrap-exposes-representation=false"
			}
		}
		if len(retainedNodes) < 64 {
			retainedNodes = append(retainedNodes, struct {
				n datamodel.Node
				h string
			}{n, avh(n) + avhRepr(n)})
		}
		if bindnode.Unwrap(n) != val {
			out += " FID:unwrap-returns-pointer=false"
		}
		return out
	case 4:
		// An integer that the Go field cannot hold (its width or signedness) is assembled into Widths:
		// the builder may refuse; it must not store some other number.
		if vt.name != "Widths" {
			return "not-applicable"
		}
		oor := []struct {
			field string
			v     *model.V
		}{
			{"I8", model.IntV(128)}, {"I8", model.IntV(-129)}, {"I16", model.IntV(32768)}, {"I16", model.IntV(-32769)}, {"I32", model.IntV(1 << 31)},
			{"U8", model.IntV(256)}, {"U8", model.IntV(-1)}, {"U16", model.IntV(65536)}, {"U32", model.IntV(1 << 32)}, {"U64", model.IntV(-1)}, {"U", model.IntV(-5)},
			{"I64", model.UintV(1 << 63)}, {"I", model.UintV(1<<63 + 1)}, {"U8", model.UintV(1 << 63)}, {"I8", model.UintV(math.MaxUint64)}, {"U32", model.UintV(math.MaxUint64)},
		}
		c := oor[o.Val%len(oor)]
		content := expectV(reflect.ValueOf(val).Elem(), shapes["Widths"], false)
		for i, k := range content.Keys {
			if k == c.field {
				content.Vals[i] = c.v
			}
		}
		nb := bindnode.Prototype(vt.ptr(), st, vt.opts...).NewBuilder()
		if err := model.Assemble(nb, content, linkOf, nil); err != nil {
			return "refused " + c.field + "=" + c.v.String()
		}
		stored := reflect.ValueOf(bindnode.Unwrap(nb.Build())).Elem().FieldByName(c.field)
		return fmt.Sprintf("accepted %s=%s stored=%v FID:integer-outside-the-field's-range-stored-as-another-number=false", c.field, c.v.String(), stored.Interface())
	case 3:
		// the Go type is inferred from the schema by reflection (nil pointer type): build from the
		// hand-written expected content at both levels, read both views back
		proto := bindnode.Prototype(nil, st)
		sh := shapes[vt.name]
		if sh == nil {
			return "harness: no shape for " + vt.name
		}
		rv := reflect.ValueOf(val).Elem()
		for _, repr := range []bool{false, true} {
			b := proto.NewBuilder()
			what := "type"
			if repr {
				b, what = proto.Representation().NewBuilder(), "representation"
			}
			if err := model.Assemble(b, expectV(rv, sh, repr), linkOf, nil); err != nil {
				return out + " ERR:" + what + "-level build into the inferred Go type: " + err.Error()
			}
			built := b.Build().(schema.TypedNode)
			out += " " + what + "-built: type=" + avh(built) + " repr=" + avh(built.Representation())
			if tv, err := readView(built); err != nil || !model.Equal(tv, expectV(rv, sh, false)) {
				out += " FID:inferred-go-type-" + what + "-build-exposes-value=false"
			}
			if !strings.Contains(out, "unreadable:") {
				if rpv, err := readView(built.Representation()); err != nil || !model.Equal(rpv, expectV(rv, sh, true)) {
					out += " FID:inferred-go-type-" + what + "-build-exposes-representation=false"
				}
			}
		}
		return out
	case 2:
		b, err := ipld.Marshal(enc, val, st, vt.opts...)
		if err != nil {
			return "ERR:marshal: " + err.Error()
		}
		fresh := reflect.New(reflect.TypeOf(val).Elem()).Interface()
		if _, err := ipld.Unmarshal(b, dec, fresh, st, vt.opts...); err != nil {
			return fmt.Sprintf("bytes=%x ERR:unmarshal: %s", sim.HashString(string(b)), err.Error())
		}
		out = fmt.Sprintf("bytes=%x", sim.HashString(string(b)))
		if len(retained) < 64 {
			retained = append(retained, struct {
				b []byte
				h uint64
			}{b, sim.HashString(string(b))})
		}
		if !deepEq(fresh, vt.vals[o.Val%len(vt.vals)]()) {
			out += " FID:marshal-unmarshal-roundtrip=false"
		}
		// marshalling again gives the same bytes
		if b2, err := ipld.Marshal(enc, fresh, st, vt.opts...); err != nil || !bytes.Equal(b, b2) {
			out += " FID:remarshal-same-bytes=false"
		}
		return out
	}
	return "?"
}

// Sample wraps one value of the vocabulary with its explicit schema (for other
// scenarios that want reflection-bound nodes of many shapes in their pools).
// which selects the type, val the value; both are reduced modulo what exists.
func Sample(which, val int) (name string, n schema.TypedNode) {
	return SampleIn(ts(), which, val)
}

// NewTypeSystem compiles the vocabulary's schema afresh (a scenario that runs many simulated
// worlds in one process gives each its own, so that damage one run does to a type system
// cannot reach the next run).
func NewTypeSystem() *schema.TypeSystem {
	t, err := ipld.LoadSchemaBytes([]byte(schemaSrc + wideSchema()))
	if err != nil {
		panic("harness: schema does not load: " + err.Error())
	}
	return t
}

// SampleIn is Sample with the explicit schema taken from the given type system.
func SampleIn(tsys *schema.TypeSystem, which, val int) (name string, n schema.TypedNode) {
	vt := vocab[which%len(vocab)]
	if vt.alt {
		tsys = tsAlt()
	}
	return vt.name, bindnode.Wrap(vt.vals[val%len(vt.vals)](), tsys.TypeByName(vt.schema), vt.opts...)
}

// VocabSize is the number of types in the vocabulary.
func VocabSize() int { return len(vocab) }

// mutateShared changes v's data in place through the first shared reference it finds (a slice
// element, a map entry, the target of a pointer) and reports whether it changed anything. A copy of
// the struct made with plain assignment shares exactly these with v.
func mutateShared(v reflect.Value) bool {
	switch v.Kind() {
	case reflect.Struct:
		if v.Type() == rCid {
			return false
		}
		for i := 0; i < v.NumField(); i++ {
			if mutateShared(v.Field(i)) {
				return true
			}
		}
	case reflect.Ptr:
		if !v.IsNil() {
			return mutateScalar(v.Elem()) || mutateShared(v.Elem())
		}
	case reflect.Slice:
		if v.Type().Elem().Kind() == reflect.Uint8 {
			return false // byte slices are handed over without a copy by convention: writing into them is the caller's fault
		}
		for i := 0; i < v.Len(); i++ {
			if mutateScalar(v.Index(i)) || mutateShared(v.Index(i)) {
				return true
			}
		}
	case reflect.Map:
		keys := v.MapKeys()
		sort.Slice(keys, func(i, j int) bool { return fmt.Sprint(keys[i]) < fmt.Sprint(keys[j]) })
		for _, k := range keys {
			c := reflect.New(v.Type().Elem()).Elem()
			c.Set(v.MapIndex(k))
			if mutateScalar(c) || mutateStructScalar(c) {
				v.SetMapIndex(k, c)
				return true
			}
		}
	}
	return false
}

func mutateScalar(v reflect.Value) bool {
	if !v.CanSet() {
		return false
	}
	switch v.Kind() {
	case reflect.String:
		v.SetString(v.String() + "~changed")
	case reflect.Int, reflect.Int8, reflect.Int16, reflect.Int32, reflect.Int64:
		v.SetInt(v.Int() ^ 1)
	case reflect.Uint, reflect.Uint8, reflect.Uint16, reflect.Uint32, reflect.Uint64:
		v.SetUint(v.Uint() ^ 1)
	case reflect.Bool:
		v.SetBool(!v.Bool())
	case reflect.Float64:
		v.SetFloat(v.Float() + 1)
	default:
		return false
	}
	return true
}

// mutateStructScalar changes the first scalar field of a struct value (for map entries that are structs).
func mutateStructScalar(v reflect.Value) bool {
	if v.Kind() != reflect.Struct || v.Type() == rCid {
		return false
	}
	for i := 0; i < v.NumField(); i++ {
		if mutateScalar(v.Field(i)) {
			return true
		}
	}
	return false
}
