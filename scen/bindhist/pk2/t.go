// Package pk2 declares a type whose name also exists in pk1, with another shape.
package pk2

type Foo struct {
	X bool
	L []int64
}

// Item also exists in pk1, with one field less.
type Item struct {
	N int64
	M string
}
