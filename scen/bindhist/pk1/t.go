// Package pk1 declares a type whose name also exists in pk2.
package pk1

type Foo struct {
	A string
	N int64
}
