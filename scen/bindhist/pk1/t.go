// Package pk1 declares a type whose name also exists in pk2.
package pk1

type Foo struct {
	A string
	N int64
}

// Item also exists in pk2, where it has one more field.
type Item struct {
	N int64
}
