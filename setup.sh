#!/bin/bash
# Run once after a fresh restore, offline: builds the framework from files on
# disk only (warms the Go build cache) and runs the short determinism self-test.
set -u
cd "$(dirname "$0")"
export VERIF_DIR="$PWD"
export GOFLAGS=-mod=mod GOPROXY=off
unset GOTOOLCHAIN GOSUMDB
mkdir -p bin .build/setup evidence replays
GO=go
if ! (cd /repo && go list -m >/dev/null 2>&1); then export GOTOOLCHAIN=local; GO=go1.26.8; fi
$GO build -o bin/instrument ./cmd/instrument || exit 2
./bin/instrument -repo "${VERIF_REPO:-/repo}" -out .build/setup/overlay -fs >/dev/null || exit 2
$GO build -overlay .build/setup/overlay/overlay.json -o bin/simcheck ./cmd/simcheck || exit 2
rc=0
for p in $(jq -r '.checks[].property_id' MANIFEST.json); do
  if [ "$p" = "C20" ]; then
    # builds the race runtime once (cached afterwards) and checks that identical tapes give identical runs
    ./run_check.sh C20 determinism 4 || rc=2
    continue
  fi
  ./bin/simcheck --selftest determinism --property "$p" --units 12 || rc=2
done
exit $rc
