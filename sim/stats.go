package sim

import (
	"encoding/json"
	"fmt"
	"sort"
)

// Violation is one oracle failure. Rule names the oracle clause; Sig names
// what fails (call site / input shape, never a seed) and is what the
// known-findings file matches on.
type Violation struct {
	Rule string `json:"rule"`
	Sig  string `json:"sig"`
	Msg  string `json:"msg"`
}

func (v Violation) Class() string { return v.Rule + "|" + v.Sig }

// Outcome of one simulated run.
type Outcome struct {
	Viol    []Violation
	LogHash uint64
	Events  uint64
	Capped  bool
	Aux     interface{} // scenario-specific by-product (e.g. the fs trace of a fault-free run)
	Log     []string
}

func (o *Outcome) Fail(rule, sig, format string, a ...interface{}) {
	o.Viol = append(o.Viol, Violation{Rule: rule, Sig: sig, Msg: fmt.Sprintf(format, a...)})
}

// Stats is what a worker measured; merged across workers into the evidence file.
type Stats struct {
	Counters map[string]int64           `json:"counters"`
	Sets     map[string]map[uint64]bool `json:"-"`
	SetsOut  map[string][]uint64        `json:"sets"`
	Samples  []json.RawMessage          `json:"samples"`
	MaxSamp  int                        `json:"-"`
	Notes    map[string]string          `json:"notes"`
	SetCap   int                        `json:"-"` // per-set bound on remembered hashes (memory); counts saturate there and say so
}

func NewStats() *Stats {
	return &Stats{Counters: map[string]int64{}, Sets: map[string]map[uint64]bool{}, MaxSamp: 6, Notes: map[string]string{}, SetCap: 600_000}
}

func (s *Stats) Inc(k string)          { s.Counters[k]++ }
func (s *Stats) Add(k string, n int64) { s.Counters[k] += n }
func (s *Stats) AddMap(prefix string, m map[string]int) {
	for k, v := range m {
		s.Counters[prefix+k] += int64(v)
	}
}
func (s *Stats) Distinct(set string, h uint64) {
	m := s.Sets[set]
	if m == nil {
		m = map[uint64]bool{}
		s.Sets[set] = m
	}
	if len(m) < s.SetCap {
		m[h] = true
	} else {
		s.Counters["distinct_set_saturated."+set] = 1
	}
}
func (s *Stats) Sample(v interface{}) {
	if len(s.Samples) >= s.MaxSamp {
		return
	}
	b, err := json.Marshal(v)
	if err == nil {
		s.Samples = append(s.Samples, b)
	}
}

func (s *Stats) Seal() {
	s.SetsOut = map[string][]uint64{}
	for k, m := range s.Sets {
		l := make([]uint64, 0, len(m))
		for h := range m {
			l = append(l, h)
		}
		sort.Slice(l, func(i, j int) bool { return l[i] < l[j] })
		s.SetsOut[k] = l
	}
}

func (s *Stats) Merge(o *Stats) {
	for k, v := range o.Counters {
		s.Counters[k] += v
	}
	for k, l := range o.SetsOut {
		for _, h := range l {
			s.Distinct(k, h)
		}
	}
	for k, m := range o.Sets {
		for h := range m {
			s.Distinct(k, h)
		}
	}
	for _, sm := range o.Samples {
		if len(s.Samples) < s.MaxSamp {
			s.Samples = append(s.Samples, sm)
		}
	}
	for k, v := range o.Notes {
		s.Notes[k] = v
	}
}

func (s *Stats) SetSize(k string) int { return len(s.Sets[k]) }
