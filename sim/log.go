package sim

import (
	"fmt"
	"hash/fnv"
)

// Log is the event log of a run: a running hash of every line (the
// determinism fingerprint) plus, optionally, the text (for replay files).
type Log struct {
	H     uint64
	N     int
	Keep  bool
	Lines []string
	Max   int
}

func NewLog() *Log { return &Log{H: 1469598103934665603, Max: 4000} }

func (l *Log) Add(s string) {
	l.N++
	h := l.H
	for i := 0; i < len(s); i++ {
		h = (h ^ uint64(s[i])) * 1099511628211
	}
	h = (h ^ '\n') * 1099511628211
	l.H = h
	if l.Keep && len(l.Lines) < l.Max {
		l.Lines = append(l.Lines, s)
	}
}

func (l *Log) Addf(format string, a ...interface{}) {
	if !l.Keep {
		// still hash: formatting must be deterministic (no maps, no pointers)
		l.Add(fmt.Sprintf(format, a...))
		return
	}
	l.Add(fmt.Sprintf(format, a...))
}

func HashString(s string) uint64 {
	h := fnv.New64a()
	h.Write([]byte(s))
	return h.Sum64()
}
