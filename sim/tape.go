// Package sim is the deterministic simulator core: choice tape, seeded
// scheduler, event log, shrinking and evidence aggregation.
//
// Everything a run decides comes from Tape.Choice and from nothing else.
package sim

import (
	"encoding/binary"
	"hash/fnv"
)

// Entry is one recorded decision. Entries with N==0 are block markers:
// L=="<label" opens a block, L==">" closes it.
type Entry struct {
	L string `json:"l"`
	N int    `json:"n"`
	V int    `json:"v"`
}

type rng struct{ s [4]uint64 }

func splitmix(x *uint64) uint64 {
	*x += 0x9e3779b97f4a7c15
	z := *x
	z = (z ^ (z >> 30)) * 0xbf58476d1ce4e5b9
	z = (z ^ (z >> 27)) * 0x94d049bb133111eb
	return z ^ (z >> 31)
}

func newRng(seed uint64) *rng {
	r := &rng{}
	for i := range r.s {
		r.s[i] = splitmix(&seed)
	}
	return r
}

func rotl(x uint64, k uint) uint64 { return (x << k) | (x >> (64 - k)) }

// xoshiro256**
func (r *rng) next() uint64 {
	res := rotl(r.s[1]*5, 7) * 9
	t := r.s[1] << 17
	r.s[2] ^= r.s[0]
	r.s[3] ^= r.s[1]
	r.s[1] ^= r.s[2]
	r.s[0] ^= r.s[3]
	r.s[2] ^= t
	r.s[3] = rotl(r.s[3], 45)
	return res
}

// SeedFor derives the per-run seed from (VERIF_SEED, property, phase, run#).
func SeedFor(seed int64, property string, run int) uint64 {
	h := fnv.New64a()
	var b [8]byte
	binary.LittleEndian.PutUint64(b[:], uint64(seed))
	h.Write(b[:])
	h.Write([]byte(property))
	binary.LittleEndian.PutUint64(b[:], uint64(run))
	h.Write(b[:])
	x := h.Sum64()
	return splitmix(&x)
}

// Tape is the single source of decisions of one run.
type Tape struct {
	Seed   uint64
	r      *rng
	Rec    []Entry
	replay []Entry          // non-nil: replay mode
	rq     map[string][]int // replay values per label, in recorded order
	rpos   int
	Forced map[string]int // label -> forced value (enumeration dimensions)
	depth  int
}

func NewTape(seed uint64) *Tape { return &Tape{Seed: seed, r: newRng(seed)} }

// NewReplay replays the decisions of a recorded tape (markers ignored).
// Replay is keyed by label: each label has its own queue of recorded values,
// consumed in order. A full recorded tape therefore replays exactly, and
// deleting a block of one kind of decision (an operation, say) during
// minimisation does not shift the meaning of every other kind (fault
// position, schedule). A label whose queue is exhausted yields 0.
func NewReplay(entries []Entry) *Tape {
	rp := make([]Entry, 0, len(entries))
	rq := map[string][]int{}
	for _, e := range entries {
		if e.N > 0 {
			rp = append(rp, e)
			rq[e.L] = append(rq[e.L], e.V)
		}
	}
	return &Tape{replay: rp, rq: rq, r: newRng(0)}
}

func (t *Tape) Replaying() bool { return t.replay != nil }

// ReplayEntries returns the decisions being replayed (nil in record mode).
func (t *Tape) ReplayEntries() []Entry { return t.replay }

// Choice returns a value in [0,n). n<=1 draws nothing and returns 0.
func (t *Tape) Choice(n int, label string) int {
	if n <= 1 {
		return 0
	}
	var v int
	if t.replay != nil {
		if q := t.rq[label]; len(q) > 0 {
			v = q[0] % n
			if v < 0 {
				v = 0
			}
			t.rq[label] = q[1:]
		}
	} else {
		v = int(t.r.next() % uint64(n)) // always draw, so forcing does not shift the stream
		if fv, ok := t.Forced[label]; ok {
			v = fv % n
		}
	}
	t.Rec = append(t.Rec, Entry{label, n, v})
	return v
}

func (t *Tape) Bool(label string) bool { return t.Choice(2, label) == 1 }

// Pct is true with probability p/100 (0 is always the simple alternative "false").
func (t *Tape) Pct(p int, label string) bool {
	if p <= 0 {
		return false
	}
	if p >= 100 {
		return true
	}
	return t.Choice(100, label) >= 100-p
}

// Range returns a value in [lo,hi].
func (t *Tape) Range(lo, hi int, label string) int {
	if hi <= lo {
		return lo
	}
	return lo + t.Choice(hi-lo+1, label)
}

// Begin opens a labelled block if the tape decides to continue a loop.
// The continue decision is the first entry of the block, so deleting the
// block from a tape removes exactly one iteration. pct is the probability of
// continuing; use 100 for an unconditional block.
func (t *Tape) Begin(label string, pct int) bool {
	mark := len(t.Rec)
	t.Rec = append(t.Rec, Entry{"<" + label, 0, 0})
	if pct < 100 && !t.Pct(pct, label+"?") {
		// no block: replace marker by the bare decision
		d := t.Rec[len(t.Rec)-1]
		t.Rec = t.Rec[:mark]
		if pct > 0 {
			t.Rec = append(t.Rec, d)
		}
		return false
	}
	t.depth++
	return true
}

func (t *Tape) End() {
	t.depth--
	t.Rec = append(t.Rec, Entry{">", 0, 0})
}

// Sub derives an independent deterministic byte/number stream from one tape
// choice (used for bulk content so the tape stays short).
func (t *Tape) Sub(label string) *Stream {
	s := uint64(t.Choice(1<<30, label))
	return &Stream{x: s*0x9e3779b97f4a7c15 + 1}
}

type Stream struct{ x uint64 }

func (s *Stream) U64() uint64    { return splitmix(&s.x) }
func (s *Stream) Intn(n int) int { return int(s.U64() % uint64(n)) }
func (s *Stream) Bytes(n int) []byte {
	b := make([]byte, n)
	for i := 0; i < n; i += 8 {
		v := s.U64()
		for j := 0; j < 8 && i+j < n; j++ {
			b[i+j] = byte(v >> (8 * j))
		}
	}
	return b
}
