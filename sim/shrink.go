package sim

// Shrink minimises a failing tape: delete labelled blocks (outermost and
// latest first), then zero and halve individual choices; a candidate is kept
// only if test reports the same violation class. budget bounds test calls.
func Shrink(tape []Entry, test func([]Entry) ([]Entry, bool), budget int) ([]Entry, int) {
	cur := append([]Entry(nil), tape...)
	used := 0
	// test re-records the candidate: on success the re-recorded tape (with
	// accurate block markers, unconsumed tail dropped) becomes current.
	try := func(c []Entry) bool {
		if used >= budget {
			return false
		}
		used++
		rec, ok := test(c)
		if ok {
			cur = rec
		}
		return ok
	}
	type span struct{ a, b, depth int }
	blocks := func(t []Entry) []span {
		var st []int
		var out []span
		for i, e := range t {
			if e.N != 0 {
				continue
			}
			if len(e.L) > 0 && e.L[0] == '<' {
				st = append(st, i)
			} else if e.L == ">" && len(st) > 0 {
				a := st[len(st)-1]
				st = st[:len(st)-1]
				out = append(out, span{a, i, len(st)})
			}
		}
		return out
	}
	// pass 0: simplest configuration first (zero every choice whose label marks a
	// configuration or a count: fewer tasks, keys, clients)
	for i := 0; i < len(cur) && used < budget; i++ {
		l := cur[i].L
		if cur[i].N == 0 || cur[i].V == 0 || !(len(l) > 4 && l[:4] == "cfg." || len(l) > 1 && l[0] == 'n') {
			continue
		}
		cand := append([]Entry(nil), cur...)
		cand[i].V = 0
		try(cand)
	}
	for round := 0; round < 4 && used < budget; round++ {
		before := len(cur)
		zerosBefore := countNonZero(cur)
		// pass 1: block deletion to fixpoint
		for changed := true; changed && used < budget; {
			changed = false
			bl := blocks(cur)
			// outermost first, later first
			for d := 0; d < 6 && !changed; d++ {
				for i := len(bl) - 1; i >= 0; i-- {
					b := bl[i]
					if b.depth != d {
						continue
					}
					cand := append(append([]Entry(nil), cur[:b.a]...), cur[b.b+1:]...)
					if try(cand) {
						changed = true
						break
					}
				}
			}
		}
		// pass 1b: delta debugging over contiguous chunks of the tape (halving sizes);
		// this is what shortens schedule-dependent failures, whose decisive choices
		// are not inside any labelled block
		for size := len(cur) / 2; size >= 1 && used < budget; size /= 2 {
			if min := len(cur) / 64; size < min {
				break
			}
			for i := 0; i+size <= len(cur) && used < budget; {
				cand := append(append([]Entry(nil), cur[:i]...), cur[i+size:]...)
				if !try(cand) {
					i += size
				}
			}
		}
		// pass 2: truncate the tail (choices past the end replay as 0)
		for n := len(cur) / 2; n >= 1 && used < budget; n /= 2 {
			if len(cur) > n {
				cand := append([]Entry(nil), cur[:len(cur)-n]...)
				if try(cand) {
					n *= 2
				}
			}
		}
		// pass 3: zero / halve values
		for i := 0; i < len(cur) && used < budget; i++ {
			if cur[i].N == 0 || cur[i].V == 0 {
				continue
			}
			cand := append([]Entry(nil), cur...)
			cand[i].V = 0
			if try(cand) {
				continue
			}
			for v := cur[i].V / 2; v > 0 && used < budget && i < len(cur); v /= 2 {
				cand := append([]Entry(nil), cur...)
				cand[i].V = v
				if !try(cand) {
					break
				}
			}
		}
		if len(cur) >= before && countNonZero(cur) >= zerosBefore {
			break
		}
	}
	return cur, used
}

func countNonZero(t []Entry) int {
	n := 0
	for _, e := range t {
		if e.N > 0 && e.V != 0 {
			n++
		}
	}
	return n
}
