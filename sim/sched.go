package sim

import (
	"context"
	"fmt"
	"runtime/debug"
	"strings"
	"sync"

	"github.com/ipld/go-ipld-prime/zzsimhook"
)

// Baton hands control between the scheduler and tasks. Exactly one side runs
// at a time. Two implementations: channel (ordinary builds) and blind pipe
// (race builds; invisible to the race detector).
type Baton interface {
	NewSlot() int // returns slot id
	Post(slot int)
	Wait(slot int)
	Close()
}

type chanBaton struct{ ch []chan struct{} }

func NewChanBaton() Baton { return &chanBaton{} }
func (b *chanBaton) NewSlot() int {
	b.ch = append(b.ch, make(chan struct{}, 1))
	return len(b.ch) - 1
}
func (b *chanBaton) Post(s int) { b.ch[s] <- struct{}{} }
func (b *chanBaton) Wait(s int) { <-b.ch[s] }
func (b *chanBaton) Close()     {}

type Task struct {
	ID      int
	Name    string
	slot    int
	fn      func()
	done    bool
	quantum int
	Panic   interface{}
	Stack   string
	Steps   int
}

type stepCap struct{}

func (stepCap) IsStepCap() {}

// Sim is one simulated world: a tape, tasks, a global event counter.
type Sim struct {
	T        *Tape
	B        Baton
	tasks    []*Task
	cur      *Task
	sslot    int
	Seq      uint64 // global event sequence number ("simulated time")
	MaxSteps uint64
	Capped   bool
	IHash    uint64 // hash of the (task,site) switch sequence: interleaving identity
	Switches int
	Log      *Log
	MaxQ     int // maximal quantum (yield points run without a scheduling decision)
	Finished []*Task

	// Deadlock: set when every unfinished task was found waiting for a lock (see YieldBlocked);
	// holds the sites they wait at.
	Deadlock      string
	blockedStreak int
	blockedSites  []string

	// callbacks the library registered with context.AfterFunc (rewritten to the hook): each runs,
	// atomically, at a yield point the tape chooses after its context was cancelled
	after     []*afterEntry
	inAfter   bool
	AfterRuns int
}

type afterEntry struct {
	ctx     context.Context
	f       func()
	stopped bool
	fired   bool
	delay   int // yield points still to pass after the cancellation was seen; -1 = not seen yet
}

// afterFunc is context.AfterFunc under the simulator: no goroutine is started.
//
//go:norace
func (s *Sim) afterFunc(ctx context.Context, f func()) (stop func() bool) {
	e := &afterEntry{ctx: ctx, f: f, delay: -1}
	s.after = append(s.after, e)
	return func() bool {
		if e.fired || e.stopped {
			return false
		}
		e.stopped = true
		return true
	}
}

//go:norace
func (s *Sim) runAfter() {
	if s.inAfter {
		return
	}
	s.inAfter = true
	defer func() { s.inAfter = false }()
	live := s.after[:0]
	for _, e := range s.after {
		if e.stopped || e.fired {
			continue
		}
		if e.delay < 0 {
			if e.ctx.Err() == nil {
				live = append(live, e)
				continue
			}
			e.delay = s.T.Choice(6, "afterfunc.delay")
		}
		if e.delay > 0 {
			e.delay--
			live = append(live, e)
			continue
		}
		e.fired = true
		s.AfterRuns++
		e.f()
	}
	s.after = live
}

// LivelockOutside is the panic raised when code running outside the scheduler (a set-up or a
// recovery phase) passes the step cap: it yields forever without finishing.
type LivelockOutside struct{}

func (LivelockOutside) Error() string {
	return "sim: step cap exceeded outside tasks (livelock in a set-up or recovery phase)"
}
func (LivelockOutside) String() string { return LivelockOutside{}.Error() }

// Deadlocked is what a task panics with when the run is found deadlocked.
type Deadlocked struct{ Sites string }

// IsStepCap makes the scenarios' panic-to-result wrappers pass it on to the task level
// (like the step cap, it ends the task; unlike the step cap, the runner records it as the task's panic).
func (Deadlocked) IsStepCap() {}

func (d Deadlocked) Error() string {
	return "deadlock: every unfinished task waits for a lock that is never released (" + d.Sites + ")"
}

func NewSim(t *Tape, b Baton) *Sim {
	s := &Sim{T: t, B: b, MaxSteps: 200000, Log: NewLog(), MaxQ: 6, IHash: 1469598103934665603}
	zzsimhook.ResetPools() // object pools of the instrumented library start every run empty
	zzsimhook.AfterFuncHook = s.afterFunc
	s.sslot = b.NewSlot()
	return s
}

// Go registers a task. Tasks start when Run is called.
func (s *Sim) Go(name string, fn func()) *Task {
	t := &Task{ID: len(s.tasks), Name: name, fn: fn, slot: s.B.NewSlot()}
	s.tasks = append(s.tasks, t)
	return t
}

// Cur returns the running task's id, or -1 outside Run.
func (s *Sim) Cur() int {
	if s.cur == nil {
		return -1
	}
	return s.cur.ID
}

func (s *Sim) Tasks() []*Task { return s.tasks }

//go:norace
func (s *Sim) setCur(t *Task) { s.cur = t }

//go:norace
func (s *Sim) getCur() *Task { return s.cur }

// Run executes all registered tasks to completion under the seeded scheduler.
func (s *Sim) Run() {
	// A real (detector-visible) edge from each task's end to the code after
	// Run, so results may be read afterwards; tasks stay mutually unordered.
	// library code waits for its (cooperative) locks by yielding to this scheduler
	if zzsimhook.YieldBlocked == nil {
		zzsimhook.YieldBlocked = s.YieldBlocked
		defer func() { zzsimhook.YieldBlocked = nil }()
	}
	var wg sync.WaitGroup
	for _, t := range s.tasks {
		t := t
		wg.Add(1)
		go func() {
			defer wg.Done()
			s.B.Wait(t.slot)
			defer func() {
				if r := recover(); r != nil {
					if _, ok := r.(stepCap); !ok {
						t.Panic = r
						t.Stack = string(debug.Stack())
						if _, dl := r.(Deadlocked); dl {
							t.Stack = "" // the stacks of a deadlock differ with who noticed it first
						}
					}
				}
				s.finish(t)
			}()
			t.fn()
		}()
	}
	for {
		var runnable []*Task
		for _, t := range s.tasks {
			if !s.isDone(t) {
				runnable = append(runnable, t)
			}
		}
		if len(runnable) == 0 {
			break
		}
		i := s.T.Choice(len(runnable), "sched")
		t := runnable[i]
		q := 0
		if len(runnable) > 1 && s.MaxQ > 0 {
			q = s.T.Choice(s.MaxQ+1, "quantum")
		} else if len(runnable) == 1 {
			q = 1 << 30
		}
		s.dispatch(t, q)
	}
	s.setCur(nil)
	wg.Wait()
	s.Finished = append(s.Finished, s.tasks...)
	s.tasks = nil
}

//go:norace
func (s *Sim) isDone(t *Task) bool { return t.done }

//go:norace
func (s *Sim) dispatch(t *Task, q int) {
	t.quantum = q
	s.cur = t
	s.Switches++
	s.B.Post(t.slot)
	s.B.Wait(s.sslot)
}

//go:norace
func (s *Sim) finish(t *Task) {
	t.done = true
	s.cur = nil
	s.blockedStreak = 0
	s.B.Post(s.sslot)
}

// Yield is a scheduling point. Outside Run (set-up, recovery phases) it only
// advances the event counter.
//
//go:norace
func (s *Sim) Yield(site string) { s.yield(site, false) }

//go:norace
func (s *Sim) yield(site string, blocked bool) {
	s.Seq++
	if s.inAfter {
		return // inside a cancellation callback: it runs as one step
	}
	if len(s.after) > 0 {
		s.runAfter()
	}
	t := s.cur
	if !blocked {
		s.blockedStreak, s.blockedSites = 0, s.blockedSites[:0]
	}
	if t == nil {
		if s.Seq > 4*s.MaxSteps {
			panic(LivelockOutside{})
		}
		return
	}
	t.Steps++
	if s.Seq > s.MaxSteps {
		s.Capped = true
		panic(stepCap{})
	}
	if t.quantum > 0 {
		t.quantum--
		return
	}
	// hand the baton back
	h := s.IHash
	h = (h ^ uint64(t.ID+1)) * 1099511628211
	for i := 0; i < len(site); i++ {
		h = (h ^ uint64(site[i])) * 1099511628211
	}
	s.IHash = h
	s.B.Post(s.sslot)
	s.B.Wait(t.slot)
}

// YieldBlocked is Yield for a task that cannot go on (it waits for a lock another,
// parked task holds): whatever its quantum, control goes back to the scheduler.
//
//go:norace
func (s *Sim) YieldBlocked(site string) {
	t := s.cur
	if t != nil {
		t.quantum = 0
		// Only blocked yields for a long stretch -- no task yielded normally and none finished --
		// means nobody can release what the waiters wait for: the run is deadlocked. (A task that
		// makes progress either reaches a normal yield point or finishes; both reset the streak.)
		s.blockedStreak++
		if len(s.blockedSites) < 8 {
			s.blockedSites = append(s.blockedSites, fmt.Sprintf("task %s at %s", t.Name, site))
		}
		live := 0
		for _, x := range s.tasks {
			if !x.done {
				live++
			}
		}
		if s.Deadlock != "" || s.blockedStreak > 64*live+64 {
			if s.Deadlock == "" {
				s.Deadlock = strings.Join(s.blockedSites, "; ")
			}
			panic(Deadlocked{s.Deadlock})
		}
	}
	s.yield(site, true)
}

// Stamp returns the next event sequence number without yielding (history stamps).
//
//go:norace
func (s *Sim) Stamp() uint64 { s.Seq++; return s.Seq }

func (t *Task) String() string { return fmt.Sprintf("%d:%s", t.ID, t.Name) }
