package sim

import (
	"syscall"
	"unsafe"
)

// blindBaton posts and awaits tokens with raw read/write system calls on
// pipes. The race detector instruments channels, mutexes, atomics and the
// syscall.Read/Write wrappers, but not syscall.Syscall itself, so execution
// is strictly serialised while the detector still regards the tasks as
// mutually unordered and reports every conflicting access pair between them.
type blindBaton struct {
	r, w []int
}

func NewBlindBaton() Baton { return &blindBaton{} }

func (b *blindBaton) NewSlot() int {
	var p [2]int
	if err := syscall.Pipe(p[:]); err != nil {
		panic(err)
	}
	b.r = append(b.r, p[0])
	b.w = append(b.w, p[1])
	return len(b.r) - 1
}

//go:norace
func (b *blindBaton) Post(s int) {
	var c [1]byte
	for {
		n, _, e := syscall.Syscall(syscall.SYS_WRITE, uintptr(b.w[s]), uintptr(unsafe.Pointer(&c[0])), 1)
		if e == syscall.EINTR {
			continue
		}
		if n != 1 {
			panic("blind baton: write failed: " + e.Error())
		}
		return
	}
}

//go:norace
func (b *blindBaton) Wait(s int) {
	var c [1]byte
	for {
		n, _, e := syscall.Syscall(syscall.SYS_READ, uintptr(b.r[s]), uintptr(unsafe.Pointer(&c[0])), 1)
		if e == syscall.EINTR {
			continue
		}
		if n != 1 {
			panic("blind baton: read failed: " + e.Error())
		}
		return
	}
}

func (b *blindBaton) Close() {
	for i := range b.r {
		syscall.Close(b.r[i])
		syscall.Close(b.w[i])
	}
	b.r, b.w = nil, nil
}
